#include <cstdio>
#include <cmath>
#include <limits>
#include "manifold/manifold.h"
using namespace manifold;
int main(){
  Manifold a = Manifold::Cube().Warp([](vec3& v){ if (v.x>0.5) v.x = std::numeric_limits<double>::infinity(); });
  printf("warp inf: status=%d empty=%d\n",(int)a.Status(), a.IsEmpty());
  Manifold b = Manifold::Cube().Warp([](vec3& v){ if (v.x>0.5) v.x = NAN; });
  printf("warp nan: status=%d empty=%d\n",(int)b.Status(), b.IsEmpty());
  Manifold c = Manifold::Cube().Warp([](vec3& v){ v.x = std::numeric_limits<double>::infinity(); });
  printf("warp all inf: status=%d empty=%d\n",(int)c.Status(), c.IsEmpty());
  Manifold d = Manifold::Cube().Scale({std::numeric_limits<double>::infinity(),1,1});
  printf("scale inf: status=%d empty=%d\n",(int)d.Status(), d.IsEmpty());
}
