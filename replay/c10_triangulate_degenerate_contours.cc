#include <manifold/polygon.h>
#include <cstdio>
using namespace manifold;
int main(){ SimplePolygon L={{0,0},{2,0},{2,1},{1,1},{1,2},{0,2}};
 for (Polygons p : {Polygons{{{0,0}}}, Polygons{{}}, Polygons{{{0,0},{1,0}}}, Polygons{L,{{5,5}}}, Polygons{L,{}}, Polygons{L,{{5,5},{6,5}}}}) for (bool c : {true,false}) { auto t = Triangulate(p, -1, c); printf("%zu contours allowConvex=%d -> %zu triangles\n", p.size(), c, t.size()); } }
