#include "manifold/manifold.h"
#include <cstdio>
#include <vector>
#include <random>
using namespace manifold;
static int unref(const Manifold& m){
  MeshGL64 g = m.GetMeshGL64();
  std::vector<char> used(g.vertProperties.size()/g.numProp,0);
  for(auto v: g.triVerts) used[v]=1;
  int n=0; for(char c: used) n+=!c; return n;
}
int main(){
  std::mt19937 rng(3); std::uniform_real_distribution<double> U(-0.4,0.4);
  int bad=0,total=0;
  for(int it=0; it<200; ++it){
    Manifold a = Manifold::Cube({1,1,1},true);
    Manifold b = (it%4==3) ? Manifold::Cube({1,1,1},true).Translate({it%8==3?0.0:U(rng), 0, 0}) : Manifold::Sphere(0.6, 8+4*(it%5)).Translate({U(rng),U(rng),U(rng)});
    Manifold r = (it%3==0? a-b : it%3==1? a+b : a^b);
    total++; if (r.NumTri() && unref(r)>0) { bad++; if (bad<4) printf("it=%d unref=%d\n",it,unref(r)); }
  }
  printf("Boolean: %d/%d results with unreferenced verts\n",bad,total);
}
