#include <manifold/manifold.h>
#include <cstdio>
#include <cmath>
using namespace manifold;
int main(int argc,char**argv){
  int which = argc>1? atoi(argv[1]):0;
  if(which==0){ Manifold m = Manifold::Extrude({{{0,0},{1,0}}}, 1); printf("Extrude 2-pt: status=%d tris=%zu\n",(int)m.Status(),m.NumTri()); }
  if(which==1){ Manifold m = Manifold::Revolve({{{0,0},{1,0}}}, 8); printf("Revolve 2-pt: status=%d tris=%zu\n",(int)m.Status(),m.NumTri()); }
  if(which==2){ Manifold m = Manifold::LevelSet([](vec3 p){ double d=1-la::length(p); return d>0? INFINITY : -INFINITY; }, Box(vec3(-2),vec3(2)), 0.5); printf("LevelSet +-inf: status=%d tris=%zu\n",(int)m.Status(),m.NumTri()); }
  if(which==3){ Manifold m = Manifold::Extrude({{{0,0}}}, 1); printf("Extrude 1-pt: status=%d tris=%zu\n",(int)m.Status(),m.NumTri()); }
  if(which==4){ Manifold m = Manifold::Extrude({{{0,0},{1,0},{0,1}},{{5,5},{6,5}}}, 1); printf("Extrude tri + 2-pt: status=%d tris=%zu\n",(int)m.Status(),m.NumTri()); }
}
