#include <cstdio>
#include "manifold/manifold.h"
using namespace manifold;
int main(){ setvbuf(stdout,0,_IONBF,0);
  { ExecutionContext ctx; MeshGL m; Manifold r = ctx.FromMeshGL(m); printf("empty: status=%d progress=%g\n",(int)r.Status(), ctx.Progress()); }
  { ExecutionContext ctx; MeshGL m; m.numProp=3; m.vertProperties={0,0,0,1,0,0,0,1,0,0,0,1}; m.triVerts={0,1,2,0,1,3,0,2,3,1,2,2};
    Manifold r = ctx.FromMeshGL(m); printf("bad: status=%d progress=%g\n",(int)r.Status(), ctx.Progress()); }
  { ExecutionContext ctx; Manifold c=Manifold::Cube(); MeshGL m=c.GetMeshGL(); Manifold r = ctx.FromMeshGL(m); printf("cube: status=%d progress=%g\n",(int)r.Status(), ctx.Progress()); }
  { ExecutionContext ctx; Manifold r = ctx.LevelSet([](vec3 p){return -1.0;}, Box({-1,-1,-1},{1,1,1}), 0.5); printf("levelset empty: status=%d progress=%g ntri=%zu\n",(int)r.Status(), ctx.Progress(), r.NumTri()); }
  { ExecutionContext ctx; Manifold r = ctx.LevelSet([](vec3 p){return 1.0-la::length(p);}, Box({-1,-1,-1},{1,1,1}), -0.5); printf("levelset bad: status=%d progress=%g ntri=%zu\n",(int)r.Status(), ctx.Progress(), r.NumTri()); }
}
