#include "manifold/manifold.h"
#include <cstdio>
#include <vector>
#include <random>
using namespace manifold;
static int unref(const Manifold& m){
  MeshGL64 g = m.GetMeshGL64();
  std::vector<char> used(g.vertProperties.size()/g.numProp,0);
  for(auto v: g.triVerts) used[v]=1;
  int n=0; for(char c: used) n+=!c; return n;
}
int main(){
  std::mt19937 rng(7); std::uniform_real_distribution<double> U(-0.4,0.4);
  int bad=0,total=0;
  for(int it=0; it<120; ++it){
    Manifold a = Manifold::Cube({1,1,1},true);
    Manifold b = Manifold::Sphere(0.6, 8+4*(it%5)).Translate({U(rng),U(rng),U(rng)});
    Manifold r = (it%3==0? a-b : it%3==1? a+b : a^b);
    for (double tol : {0.01, 0.05, 0.2, 0.5}) {
      Manifold s = r.Simplify(tol); Manifold t = r.SetTolerance(tol);
      for (const Manifold& m : {s,t}) { total++; if (m.NumTri() && (unref(m)>0 || (int(m.NumVert())-int(m.NumEdge())+int(m.NumTri()))%2)) { bad++; if(bad<5) printf("it=%d tol=%g unref=%d\n",it,tol,unref(m)); } }
    }
  }
  printf("Simplify/SetTolerance: %d/%d with unreferenced verts or odd chi\n",bad,total);
  // refine strand check with current tree
  bad=0;total=0;
  for(int it=0; it<40; ++it){
    Manifold a = Manifold::Cube({1,1,1},true);
    Manifold b = Manifold::Sphere(0.6, 12).Translate({U(rng),U(rng),U(rng)});
    Manifold r = (it%2? a-b : a+b).SmoothOut(50).RefineToLength(0.15);
    total++; if (unref(r)>0) bad++;
  }
  printf("Refine: %d/%d with unreferenced verts\n",bad,total);
}
