#include <cstdio>
#include <cmath>
#include "manifold/manifold.h"
using namespace manifold;
int main(){
  Manifold a = Manifold::Cube().Warp([](vec3& v){ v.x = NAN; });
  printf("warp all NaN: status=%d empty=%d\n",(int)a.Status(), a.IsEmpty());
  Manifold b = Manifold::Cube().Warp([](vec3& v){ if (v.x > 0.5) v.y = NAN; });
  printf("warp some NaN: status=%d empty=%d\n",(int)b.Status(), b.IsEmpty());
  Manifold c = Manifold::Cube().Warp([](vec3& v){ v.x *= 2; });
  printf("warp ok: status=%d vol=%g\n",(int)c.Status(), c.Volume());
  return a.Status()==Manifold::Error::NonFiniteVertex && b.Status()==Manifold::Error::NonFiniteVertex && c.Status()==Manifold::Error::NoError ? 0 : 1;
}
