#include "manifold/manifold.h"
#include <cstdio>
using namespace manifold;
int main(){
  Manifold a = Manifold::Cube({1,1,1}).Scale({1000,1000,1000});
  Manifold b = Manifold::Cube({1,1,1}).Translate({5000,0,0});
  Manifold c = a + b;   // bbox-disjoint -> Compose
  printf("compose: tol=%.3e eps=%.3e  tol>=eps:%d status=%d\n", c.GetTolerance(), c.GetEpsilon(), c.GetTolerance()>=c.GetEpsilon(), (int)c.Status());
  Manifold a2 = Manifold::Cube({1,1,1}).Scale({1000,1000,1000});
  printf("scaled alone: tol=%.3e eps=%.3e tol>=eps:%d\n", a2.GetTolerance(), a2.GetEpsilon(), a2.GetTolerance()>=a2.GetEpsilon());
  Manifold d = Manifold::Compose({a, b});
  printf("Compose(): tol=%.3e eps=%.3e tol>=eps:%d\n", d.GetTolerance(), d.GetEpsilon(), d.GetTolerance()>=d.GetEpsilon());
}
