// C13: manifold::unique(Par) and radix stable_sort(Par) versus their std:: specifications.
// Build: g++ -std=gnu++17 -O1 -DMANIFOLD_PAR=1 -I/repo/include -I/repo/src c13_unique_radix.cc -ltbb -lpthread
#include <algorithm>
#include <cstdio>
#include <random>
#include <vector>

#include "parallel.h"
using namespace manifold;

int main() {
  int bad = 0;
  {  // unique: equal pair straddling the 65536-element chunk boundary
    std::vector<size_t> v(200000);
    for (size_t i = 0; i < v.size(); ++i) v[i] = (i + 1) / 2;  // pairs (0) (1 1) (2 2) ... straddle every even boundary
    std::vector<size_t> want = v;
    want.erase(std::unique(want.begin(), want.end()), want.end());
    v.erase(manifold::unique(ExecutionPolicy::Par, v.begin(), v.end()), v.end());
    std::printf("unique(Par): %zu elements, std::unique: %zu  %s\n", v.size(), want.size(), v == want ? "ok" : "MISMATCH");
    bad += v != want;
  }
  {  // radix stable_sort on signed values
    std::mt19937 g(3);
    std::vector<int> v(200000);
    for (auto& x : v) x = static_cast<int>(g()) >> 4;  // negatives and positives
    std::vector<int> want = v;
    std::stable_sort(want.begin(), want.end());
    int* p = v.data();
    manifold::stable_sort(ExecutionPolicy::Par, p, p + v.size());
    std::printf("stable_sort(Par,int*): %s (first %d, std first %d)\n", v == want ? "ok" : "MISMATCH", v[0], want[0]);
    bad += v != want;
  }
  return bad ? 1 : 0;
}
