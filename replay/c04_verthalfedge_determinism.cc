#include <manifold/manifold.h>
#include <tbb/global_control.h>
#include <cstdio>
#include <cstring>
#include <functional>
using namespace manifold;
static uint64_t H(const MeshGL64& g){ uint64_t h=1469598103934665603ull; auto mix=[&](const void*p,size_t n){ const unsigned char*c=(const unsigned char*)p; for(size_t i=0;i<n;i++){h^=c[i];h*=1099511628211ull;} };
  mix(g.vertProperties.data(),g.vertProperties.size()*8); mix(g.triVerts.data(),g.triVerts.size()*8); mix(g.halfedgeTangent.data(),g.halfedgeTangent.size()*8); return h; }
int main(){
  uint64_t first=0; int diff=0, runs=0;
  for(int threads: {1,2,4,8,16,16,16,8}){
    tbb::global_control gc(tbb::global_control::max_allowed_parallelism, threads);
    Manifold s = Manifold::Sphere(1, 400);          // > 1e5 halfedges
    Manifold sm = s.SmoothOut(60, 0.5);
    MeshGL64 g = sm.GetMeshGL64();
    uint64_t h=H(g); if(!runs) first=h; if(h!=first) diff++; runs++;
    printf("threads=%2d tris=%zu hash=%016lx\n",threads,g.NumTri(),h);
  }
  printf("%d of %d runs differ from the first\n",diff,runs); return diff!=0;
}
