#include "manifold/manifold.h"
#include <tbb/global_control.h>
#include <cstdio>
#include <cstring>
#include <functional>
using namespace manifold;
static uint64_t hashMesh(const Manifold& m){
  MeshGL64 g = m.GetMeshGL64();
  uint64_t h=1469598103934665603ull;
  auto mix=[&](const void*p,size_t n){ const unsigned char*c=(const unsigned char*)p; for(size_t i=0;i<n;i++){h^=c[i];h*=1099511628211ull;} };
  mix(g.vertProperties.data(), g.vertProperties.size()*8); mix(g.triVerts.data(), g.triVerts.size()*8);
  mix(g.runIndex.data(), g.runIndex.size()*8); mix(g.faceID.data(), g.faceID.size()*8);
  return h;
}
int main(){
  for(int which=0; which<4; ++which){
    uint64_t ref=0; int diff=0;
    for(int rep=0; rep<6; ++rep){
      int nt = (rep%3==0)?1:(rep%3==1?4:16);
      tbb::global_control gc(tbb::global_control::max_allowed_parallelism, nt);
      Manifold m;
      if(which==0) m = Manifold::Sphere(1.0, 256).CalculateCurvature(0,1);          // ~130k tris
      if(which==1) m = Manifold::LevelSet([](vec3 p){ return 1.0 - la::length(p) + 0.1*sin(7*p.x)*sin(5*p.y); }, Box({-1.3,-1.3,-1.3},{1.3,1.3,1.3}), 0.025);
      if(which==2) m = Manifold::Sphere(1.0, 256) - Manifold::Sphere(1.0,256).Translate({0.3,0.2,0.1});
      if(which==3) m = (Manifold::Sphere(1.0, 200) + Manifold::Cube({1.2,1.2,1.2})).SetTolerance(0.01);
      uint64_t h = hashMesh(m);
      if(rep==0) ref=h; else if(h!=ref) diff++;
      if(rep==0) printf("case %d tris=%zu\n", which, m.NumTri());
    }
    printf("case %d: %d/5 runs differ from 1-thread run\n", which, diff);
  }
}
