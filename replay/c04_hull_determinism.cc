#include "manifold/manifold.h"
#include <tbb/global_control.h>
#include <cstdio>
#include <vector>
#include <cmath>
using namespace manifold;
static bool same(const MeshGL64&a,const MeshGL64&b){ return a.triVerts==b.triVerts && a.vertProperties==b.vertProperties; }
int main(){
  // dense, nearly-flat-patch point sets: many hull faces with close centres
  std::vector<vec3> pts;
  for (int i=0;i<400;i++) for(int j=0;j<400;j++){ double u=i/400.0*6.283185307, v=(j+0.5)/400.0*3.14159265; pts.push_back({std::sin(v)*std::cos(u)*(1+1e-7*i), std::sin(v)*std::sin(u), std::cos(v)*0.001}); }
  MeshGL64 ref; bool have=false; int diff=0,total=0;
  for (int threads : {1,2,4,8,16,16,16,3,5}) {
    tbb::global_control gc(tbb::global_control::max_allowed_parallelism, threads);
    MeshGL64 m = Manifold::Hull(pts).GetMeshGL64();
    if(!have){ref=m;have=true; printf("hull tris=%zu\n", m.triVerts.size()/3);} else { total++; if(!same(ref,m)) diff++; }
  }
  printf("Hull: %d/%d differ\n",diff,total);
  Manifold s = Manifold::Sphere(1.0, 256);
  have=false; diff=0; total=0;
  for (int threads : {1,2,4,8,16,16,16,3,5}) {
    tbb::global_control gc(tbb::global_control::max_allowed_parallelism, threads);
    MeshGL64 m = s.Hull().GetMeshGL64();
    if(!have){ref=m;have=true; printf("sphere hull tris=%zu\n", m.triVerts.size()/3);} else { total++; if(!same(ref,m)) diff++; }
  }
  printf("Sphere hull: %d/%d differ\n",diff,total);
}
