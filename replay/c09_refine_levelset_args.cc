#include <cstdio>
#include <cmath>
#include "manifold/manifold.h"
using namespace manifold;
int main(){
  Manifold s = Manifold::Sphere(1, 16);
  printf("RefineToLength(0): %d\n", (int)s.RefineToLength(0).Status());
  printf("RefineToLength(NaN): %d\n", (int)s.RefineToLength(NAN).Status());
  printf("RefineToTolerance(0): %d\n", (int)s.SmoothOut().RefineToTolerance(0).Status());
  printf("RefineToLength(0.5) tris: %zu status %d\n", s.RefineToLength(0.5).NumTri(), (int)s.RefineToLength(0.5).Status());
  printf("LevelSet(edge 0): %d\n", (int)Manifold::LevelSet([](vec3 p){return 1-la::length(p);}, Box({-1,-1,-1},{1,1,1}), 0).Status());
  printf("LevelSet(edge -1): %d\n", (int)Manifold::LevelSet([](vec3 p){return 1-la::length(p);}, Box({-1,-1,-1},{1,1,1}), -1).Status());
  printf("LevelSet(edge NaN): %d\n", (int)Manifold::LevelSet([](vec3 p){return 1-la::length(p);}, Box({-1,-1,-1},{1,1,1}), NAN).Status());
  printf("LevelSet(ok): %d tris %zu\n", (int)Manifold::LevelSet([](vec3 p){return 1-la::length(p);}, Box({-1.1,-1.1,-1.1},{1.1,1.1,1.1}), 0.2).Status(), Manifold::LevelSet([](vec3 p){return 1-la::length(p);}, Box({-1.1,-1.1,-1.1},{1.1,1.1,1.1}), 0.2).NumTri());
}
