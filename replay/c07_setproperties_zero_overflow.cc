#include <manifold/manifold.h>
#include <cstdio>
#include <algorithm>
using namespace manifold;
int main(){
  Manifold cube = Manifold::Cube(vec3(1)).CalculateNormals(0, 0);
  printf("cube: verts %zu propVerts %zu numProp %zu\n", cube.NumVert(), cube.NumPropVert(), cube.NumProp());
  Manifold a = cube.SetProperties(0, nullptr);
  printf("a=SetProperties(0): verts %zu propVerts %zu numProp %zu status %d\n", a.NumVert(), a.NumPropVert(), a.NumProp(), (int)a.Status());
  MeshGL64 g = a.GetMeshGL64();
  uint64_t mx = *std::max_element(g.triVerts.begin(), g.triVerts.end());
  printf("export of a: NumVert %zu, max triVerts index %lu %s\n", (size_t)g.NumVert(), mx, mx >= g.NumVert() ? "<-- OUT OF RANGE" : "ok");
  Manifold b = a.SetProperties(1, [](double* p, vec3 pos, const double*) { p[0] = pos.x; });
  printf("b=SetProperties(1): verts %zu propVerts %zu numProp %zu\n", b.NumVert(), b.NumPropVert(), b.NumProp());
  return mx >= g.NumVert();
}
