#include "manifold/manifold.h"
#include <tbb/global_control.h>
#include <cstdio>
using namespace manifold;
static uint64_t hashMesh(const Manifold& m){
  MeshGL64 g = m.GetMeshGL64();
  uint64_t h=1469598103934665603ull;
  auto mix=[&](const void*p,size_t n){ const unsigned char*c=(const unsigned char*)p; for(size_t i=0;i<n;i++){h^=c[i];h*=1099511628211ull;} };
  mix(g.vertProperties.data(), g.vertProperties.size()*8); mix(g.triVerts.data(), g.triVerts.size()*8);
  return h;
}
int main(){
  uint64_t ref=0; int diff=0;
  for(int rep=0; rep<8; ++rep){
    int nt = (rep%4==0)?1:(rep%4==1?3:(rep%4==2?8:16));
    tbb::global_control gc(tbb::global_control::max_allowed_parallelism, nt);
    // long thin tube along x: >1024 grid cells along x so neighbouring rings share Morton codes
    Manifold m = Manifold::LevelSet([](vec3 p){ return 0.02 - std::sqrt(p.y*p.y+p.z*p.z); },
                                    Box({0,-0.04,-0.04},{30,0.04,0.04}), 0.01);
    uint64_t h=hashMesh(m);
    if(rep==0){ ref=h; printf("tris=%zu verts=%zu status=%d\n", m.NumTri(), m.NumVert(), (int)m.Status()); } else if(h!=ref) diff++;
  }
  printf("LevelSet tube: %d/7 runs differ from 1-thread run\n", diff);
}
