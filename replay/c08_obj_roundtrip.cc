#include <manifold/manifold.h>
#include <sstream>
#include <cstdio>
#include <cstdlib>
#include <cstring>
using namespace manifold;
int main(int argc,char**argv){
  double s = argc>1? atof(argv[1]) : 1.0;
  Manifold m = Manifold::Tetrahedron().Scale(vec3(s*1.2345678901234567)).Translate(vec3(s*0.3333333333333333));
  MeshGL64 a = m.GetMeshGL64();
  std::stringstream ss; WriteOBJ(ss,a);
  MeshGL64 b = ReadOBJ(ss);
  printf("scale %g: verts out %zu in %zu tris out %zu in %zu\n", s, a.vertProperties.size()/a.numProp, b.vertProperties.size()/3, a.triVerts.size()/3,b.triVerts.size()/3);
  int bad=0; size_t n=std::min(a.vertProperties.size()/a.numProp,b.vertProperties.size()/3);
  for(size_t i=0;i<n;i++)for(int j=0;j<3;j++) if(a.vertProperties[i*a.numProp+j]!=b.vertProperties[i*3+j]){ if(!bad) printf("  first diff v%zu[%d] %.17g vs %.17g\n",i,j,a.vertProperties[i*a.numProp+j],b.vertProperties[i*3+j]); bad++;}
  printf("  differing coordinates: %d of %zu\n",bad,n*3);
  return bad||n*3!=a.vertProperties.size()/a.numProp*3;
}
