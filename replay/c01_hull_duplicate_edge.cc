// C01: Manifold::Hull() returns a NoError mesh in which a directed edge occurs twice.
// usage: hull_repro prehull.obj
#include <manifold/manifold.h>
#include <fstream>
#include <map>
#include <cstdio>
using namespace manifold;
int main(int argc,char**argv){
  std::ifstream f(argv[1]); Manifold m = Manifold::ReadOBJ(f);
  printf("input: status=%d verts=%zu tris=%zu\n",(int)m.Status(),m.NumVert(),m.NumTri());
  Manifold h = m.Hull();
  MeshGL64 g = h.GetMeshGL64();
  std::map<std::pair<uint64_t,uint64_t>,int> cnt; 
  for(size_t t=0;t<g.NumTri();t++) for(int j=0;j<3;j++) cnt[{g.triVerts[3*t+j],g.triVerts[3*t+(j+1)%3]}]++;
  int dup=0, unmatched=0;
  for(auto&kv:cnt){ if(kv.second>1){ if(!dup) printf("  directed edge %lu->%lu occurs %d times\n",kv.first.first,kv.first.second,kv.second); dup++;} if(!cnt.count({kv.first.second,kv.first.first})) unmatched++; }
  printf("hull: status=%d verts=%zu tris=%zu duplicate directed edges=%d unmatched=%d\n",(int)h.Status(),h.NumVert(),h.NumTri(),dup,unmatched);
  return dup||unmatched;
}
