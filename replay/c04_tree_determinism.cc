#include "manifold/manifold.h"
#include <tbb/global_control.h>
#include <cstdio>
#include <cstring>
#include <vector>
using namespace manifold;
static MeshGL64 build(int variant){
  // several instances of the same original, combined in one tree evaluated with BatchBoolean tasks
  Manifold s = Manifold::Sphere(1.0, 96);
  std::vector<Manifold> parts;
  for (int i=0;i<6;i++){
    Manifold c = Manifold::Cube({1.5,1.5,1.5},true).Translate({3.0*i,0,0});
    Manifold hole = s.Translate({3.0*i+0.3,0.2,0.1});
    parts.push_back(c - hole);        // 6 independent Booleans (parallel tasks)
  }
  Manifold u = Manifold::BatchBoolean(parts, OpType::Add);
  Manifold v = u ^ Manifold::Cube({20,1.2,1.2},true).Translate({7.5,0,0});
  return v.GetMeshGL64();
}
static bool same(const MeshGL64&a,const MeshGL64&b){
  return a.triVerts==b.triVerts && a.vertProperties==b.vertProperties && a.runIndex==b.runIndex && a.runOriginalID==b.runOriginalID && a.faceID==b.faceID && a.runTransform==b.runTransform;
}
int main(){
  MeshGL64 ref; bool have=false; int diff=0,total=0;
  for (int threads : {1,1,1,2,4,16,16}) {
    tbb::global_control gc(tbb::global_control::max_allowed_parallelism, threads);
    MeshGL64 m = build(0);
    if(!have){ref=m;have=true; printf("ref tris=%zu runs=%zu\n", m.triVerts.size()/3, m.runOriginalID.size());}
    else { total++; if(!same(ref,m)){ diff++; printf("threads=%d differs: triVerts %d vertProps %d runIndex %d runOrig %d faceID %d runTransform %d\n",threads,(int)(ref.triVerts!=m.triVerts),(int)(ref.vertProperties!=m.vertProperties),(int)(ref.runIndex!=m.runIndex),(int)(ref.runOriginalID!=m.runOriginalID),(int)(ref.faceID!=m.faceID),(int)(ref.runTransform!=m.runTransform)); } }
  }
  printf("%d/%d runs differ\n",diff,total);
}
