#include <manifold/manifold.h>
#include <cstdio>
#include <cmath>
#include <random>
using namespace manifold;
int main(){
  std::mt19937 rng(1); std::uniform_real_distribution<double> U(-0.4,0.4);
  int nonfinite=0,total=0;
  for(int it=0; it<60; ++it){
    Manifold a = Manifold::Cube({1,1,1},true);
    Manifold b = Manifold::Cube({1,1,1},true).Rotate(U(rng)*100,U(rng)*100,U(rng)*100).Translate({U(rng),U(rng),U(rng)});
    Manifold c = Manifold::Sphere(0.6,12).Translate({U(rng),U(rng),U(rng)});
    Manifold r; switch(it%3){case 0: r=a-b; break; case 1: r=a+c; break; default: r=(a^b)-c;}
    if(r.IsEmpty()) continue;
    Manifold s = r.SmoothOut();
    MeshGL64 g = s.GetMeshGL64();
    int bad=0; for(double t: g.halfedgeTangent) if(!std::isfinite(t)) bad++;
    total++;
    if(bad){ nonfinite++; printf("it %d: status=%d %d non-finite tangent components of %zu\n",it,(int)s.Status(),bad,g.halfedgeTangent.size());
      fflush(stdout);
      Manifold t = s.RefineToTolerance(0.01); printf("   RefineToTolerance: status=%d tris=%zu\n",(int)t.Status(),t.NumTri()); fflush(stdout);}
  }
  printf("non-finite tangents in %d / %d\n",nonfinite,total); return nonfinite!=0;
}
