#include "manifold/cross_section.h"
#include <cstdio>
using namespace manifold;
static bool segX(vec2 a, vec2 b, vec2 c, vec2 d){
  auto o=[](vec2 p, vec2 q, vec2 r){ return (q.x-p.x)*(r.y-p.y)-(q.y-p.y)*(r.x-p.x); };
  double d1=o(a,b,c), d2=o(a,b,d), d3=o(c,d,a), d4=o(c,d,b);
  return ((d1>0)!=(d2>0)) && ((d3>0)!=(d4>0)) && d1!=0 && d2!=0 && d3!=0 && d4!=0;
}
static int crossings(const Polygons& ps){
  int n=0;
  for(auto& p: ps) for(size_t i=0;i<p.size();++i) for(size_t j=i+2;j<p.size();++j){
    if(i==0 && j==p.size()-1) continue;
    if(segX(p[i],p[(i+1)%p.size()],p[j],p[(j+1)%p.size()])) n++;
  }
  return n;
}
int main(){
  SimplePolygon ring = {{0,-5},{4.9,-5},{5,0.15},{5.1,-5},{10,-5},{10,0},{5,0.3},{0,0}};
  CrossSection c(ring);
  printf("input: contours=%zu verts=%zu area=%.4f crossings=%d\n", c.NumContour(), c.NumVert(), c.Area(), crossings(c.ToPolygons()));
  CrossSection s = c.Simplify(0.5);
  printf("Simplify(0.5): contours=%zu verts=%zu area=%.4f crossings=%d\n", s.NumContour(), s.NumVert(), s.Area(), crossings(s.ToPolygons()));
  CrossSection t = c.SetTolerance(0.5);
  printf("SetTolerance(0.5): crossings=%d\n", crossings(t.ToPolygons()));
}
