// mfx — program-database extractor for the /verif static rules.
//
// libTooling (clang 14).  For one translation unit it writes a JSON file with
//   * every function definition located under --root (methods, ctors, free
//     functions, template instantiations, lambda call operators), each with its
//     clang CFG (all sub-expressions as elements, implicit destructors,
//     initialisers) rendered as blocks of *events* (expression trees),
//   * classes (fields, methods), enums, namespace-scope / static variables,
//     body-less function declarations.
// It performs NO rule checking; rules live in /verif/rules/*.py.
//
// build:  clang++ $(llvm-config-14 --cxxflags) -fno-rtti mfx.cc -o mfx \
//           /usr/lib/llvm-14/lib/libclang-cpp.so.14 /usr/lib/llvm-14/lib/libLLVM-14.so
// run:    mfx --root=/repo --out=unit.json file.cpp -- -std=gnu++17 -I... -D...

#include <map>
#include <set>
#include <string>
#include <vector>

#include "clang/AST/ASTConsumer.h"
#include "clang/AST/ASTContext.h"
#include "clang/AST/DeclCXX.h"
#include "clang/AST/DeclTemplate.h"
#include "clang/AST/ExprCXX.h"
#include "clang/AST/RecursiveASTVisitor.h"
#include "clang/Analysis/CFG.h"
#include "clang/Basic/SourceManager.h"
#include "clang/Frontend/CompilerInstance.h"
#include "clang/Frontend/FrontendAction.h"
#include "clang/Tooling/CommonOptionsParser.h"
#include "clang/Tooling/Tooling.h"
#include "llvm/Support/CommandLine.h"
#include "llvm/Support/JSON.h"
#include "llvm/Support/raw_ostream.h"

using namespace clang;
using namespace clang::tooling;
namespace json = llvm::json;

static llvm::cl::OptionCategory Cat("mfx options");
static llvm::cl::opt<std::string> OptRoot("root", llvm::cl::desc("repository root"),
                                          llvm::cl::init("/repo"), llvm::cl::cat(Cat));
static llvm::cl::opt<std::string> OptOut("out", llvm::cl::desc("output json"),
                                         llvm::cl::init("-"), llvm::cl::cat(Cat));
static llvm::cl::list<std::string> OptSkip(
    "skip", llvm::cl::desc("file-name suffix whose function bodies are not emitted"),
    llvm::cl::cat(Cat));
static llvm::cl::opt<int> OptDepth("depth", llvm::cl::desc("max expression tree depth"),
                                   llvm::cl::init(14), llvm::cl::cat(Cat));

namespace {

struct Extractor {
  ASTContext &Ctx;
  SourceManager &SM;
  PrintingPolicy PP;
  std::string Root;
  llvm::raw_ostream &OS;
  bool firstFn = true;

  std::set<const FunctionDecl *> seenFn;
  std::set<std::string> seenKey;
  std::vector<const FunctionDecl *> work;

  // interned types
  std::map<const void *, int> typeIdx;
  json::Array typeTab;

  Extractor(ASTContext &C, llvm::raw_ostream &O)
      : Ctx(C), SM(C.getSourceManager()), PP(C.getLangOpts()), Root(OptRoot), OS(O) {
    PP.SuppressTagKeyword = true;
    PP.Bool = true;
    PP.SuppressUnwrittenScope = false;
    PP.TerseOutput = true;
    PP.AnonymousTagLocations = false;
    if (!Root.empty() && Root.back() != '/') Root += '/';
  }

  // ---------- locations ----------
  std::string fileOf(SourceLocation L) {
    if (L.isInvalid()) return "";
    L = SM.getExpansionLoc(L);
    if (const FileEntry *FE = SM.getFileEntryForID(SM.getFileID(L))) {
      llvm::StringRef N = FE->tryGetRealPathName();
      if (N.empty()) N = FE->getName();
      return N.str();
    }
    return "";
  }
  bool underRoot(SourceLocation L) {
    std::string f = fileOf(L);
    return f.compare(0, Root.size(), Root) == 0 &&
           f.find("/_build/") == std::string::npos;
  }
  std::string rel(const std::string &f) {
    if (f.compare(0, Root.size(), Root) == 0) return f.substr(Root.size());
    return f;
  }
  unsigned lineOf(SourceLocation L) {
    if (L.isInvalid()) return 0;
    return SM.getExpansionLineNumber(L);
  }
  unsigned colOf(SourceLocation L) {
    if (L.isInvalid()) return 0;
    return SM.getExpansionColumnNumber(L);
  }
  std::string locStr(SourceLocation L) {
    return std::to_string(lineOf(L)) + ":" + std::to_string(colOf(L));
  }
  bool skipped(SourceLocation L) {
    std::string f = fileOf(L);
    for (auto &s : OptSkip)
      if (f.size() >= s.size() && f.compare(f.size() - s.size(), s.size(), s) == 0)
        return true;
    return false;
  }

  // ---------- types ----------
  int typeId(QualType T) {
    if (T.isNull()) return -1;
    const void *key = T.getAsOpaquePtr();
    auto it = typeIdx.find(key);
    if (it != typeIdx.end()) return it->second;
    json::Object o;
    o["s"] = T.getAsString(PP);
    QualType C = T.getCanonicalType();
    bool ref = C->isReferenceType();
    bool rref = C->isRValueReferenceType();
    QualType V = C.getNonReferenceType();
    bool ptr = false;
    o["const"] = V.isConstQualified();
    QualType P = V;
    if (V->isPointerType()) {
      ptr = true;
      P = V->getPointeeType();
      o["pconst"] = P.isConstQualified();
    }
    const char *k = "o";
    QualType U = P.getUnqualifiedType();
    if (U->isBooleanType()) k = "b";
    else if (U->isEnumeralType()) k = "e";
    else if (U->isIntegerType()) k = "i";
    else if (U->isFloatingType()) k = "f";
    else if (U->isRecordType()) k = "r";
    else if (U->isFunctionType() || U->isFunctionPointerType()) k = "fn";
    else if (U->isVoidType()) k = "v";
    o["k"] = k;
    o["c"] = C.getAsString(PP);   // canonical spelling of the whole type
    o["cu"] = U.getAsString(PP);  // canonical unqualified pointee / referee
    if (ref) o["ref"] = true;
    if (rref) o["rref"] = true;
    if (ptr) o["ptr"] = true;
    if (const CXXRecordDecl *RD = U->getAsCXXRecordDecl()) {
      o["r"] = RD->getQualifiedNameAsString();
      if (auto *TS = dyn_cast<ClassTemplateSpecializationDecl>(RD)) {
        json::Array ta;
        for (const TemplateArgument &A : TS->getTemplateArgs().asArray()) {
          std::string s;
          llvm::raw_string_ostream so(s);
          A.print(PP, so, true);
          ta.push_back(so.str());
        }
        o["targs"] = std::move(ta);
      }
    } else if (const EnumType *ET = U->getAs<EnumType>()) {
      o["r"] = ET->getDecl()->getQualifiedNameAsString();
    }
    int id = (int)typeTab.size();
    typeTab.push_back(std::move(o));
    typeIdx[key] = id;
    return id;
  }

  // ---------- function identity ----------
  std::string qname(const NamedDecl *D) {
    std::string s;
    llvm::raw_string_ostream so(s);
    D->printQualifiedName(so, PP);
    return so.str();
  }
  const FunctionDecl *enclosingFn(const DeclContext *DC) {
    while (DC) {
      if (auto *FD = dyn_cast<FunctionDecl>(DC)) return FD;
      DC = DC->getParent();
    }
    return nullptr;
  }
  bool isLambdaOp(const FunctionDecl *FD) {
    if (auto *MD = dyn_cast<CXXMethodDecl>(FD))
      return MD->getParent()->isLambda();
    return false;
  }
  std::string fnKey(const FunctionDecl *FD) {
    if (isLambdaOp(FD)) {
      auto *MD = cast<CXXMethodDecl>(FD);
      const FunctionDecl *P = enclosingFn(MD->getParent()->getDeclContext());
      std::string pk = P ? fnKey(P) : rel(fileOf(MD->getParent()->getLocation()));
      std::string k = pk + "::<lambda@" + locStr(MD->getParent()->getLocation()) + ">";
      if (MD->getParent()->isGenericLambda()) k += FD->getType().getCanonicalType().getAsString(PP);
      return k;
    }
    std::string s;
    llvm::raw_string_ostream so(s);
    FD->getNameForDiagnostic(so, PP, true);
    so << " :: " << FD->getType().getCanonicalType().getAsString(PP);
    return so.str();
  }
  std::string fnName(const FunctionDecl *FD) {
    if (isLambdaOp(FD)) {
      auto *MD = cast<CXXMethodDecl>(FD);
      const FunctionDecl *P = enclosingFn(MD->getParent()->getDeclContext());
      std::string pk = P ? fnName(P) : rel(fileOf(MD->getParent()->getLocation()));
      return pk + "::<lambda@" + locStr(MD->getParent()->getLocation()) + ">";
    }
    return qname(FD);
  }

  // ---------- expression trees ----------
  std::map<const Stmt *, int> elemId;  // per function: CFG stmt -> event index

  json::Value var(const ValueDecl *D, const DeclRefExpr *DRE) {
    json::Object o;
    if (auto *VD = dyn_cast<VarDecl>(D)) {
      o["k"] = "var";
      o["n"] = VD->getNameAsString();
      o["t"] = typeId(VD->getType());
      if (auto *PV = dyn_cast<ParmVarDecl>(VD)) {
        o["s"] = "p";
        o["pi"] = (int)PV->getFunctionScopeIndex();
        o["d"] = locStr(VD->getLocation());
      } else if (VD->isLocalVarDecl()) {
        o["s"] = VD->isStaticLocal() ? "sl" : "l";
        o["d"] = locStr(VD->getLocation());
      } else {
        o["s"] = "g";
        o["n"] = qname(VD);
      }
      if (DRE && DRE->refersToEnclosingVariableOrCapture()) o["cap"] = true;
      return std::move(o);
    }
    if (auto *FD = dyn_cast<FunctionDecl>(D)) {
      o["k"] = "fn";
      o["n"] = fnName(FD);
      noteCallee(FD);
      if (wantBody(FD)) o["fk"] = fnKey(FD);
      return std::move(o);
    }
    if (auto *EC = dyn_cast<EnumConstantDecl>(D)) {
      o["k"] = "enum";
      o["n"] = qname(EC);
      o["v"] = (int64_t)EC->getInitVal().getExtValue();
      return std::move(o);
    }
    if (auto *BD = dyn_cast<BindingDecl>(D)) {
      o["k"] = "var";
      o["n"] = BD->getNameAsString();
      o["s"] = "l";
      o["d"] = locStr(BD->getLocation());
      o["t"] = typeId(BD->getType());
      o["bind"] = true;
      return std::move(o);
    }
    o["k"] = "other";
    o["c"] = "DeclRef";
    o["n"] = D->getNameAsString();
    return std::move(o);
  }

  void noteCallee(const FunctionDecl *FD) {}

  bool wantBody(const FunctionDecl *FD) {
    // any declaration under the repository root: the definition may live in
    // another translation unit (keys are location-independent)
    const FunctionDecl *Def = nullptr;
    if (FD->hasBody(Def) && underRoot(Def->getLocation())) return true;
    for (const FunctionDecl *R : FD->redecls())
      if (underRoot(R->getLocation())) return true;
    if (const FunctionDecl *Pat = FD->getTemplateInstantiationPattern())
      if (underRoot(Pat->getLocation())) return true;
    return false;
  }

  json::Value X(const Stmt *S, int depth) {
    json::Object o;
    if (!S) {
      o["k"] = "null";
      return std::move(o);
    }
    if (depth <= 0) {
      o["k"] = "trunc";
      return std::move(o);
    }
    // transparent wrappers
    if (auto *E = dyn_cast<ParenExpr>(S)) return X(E->getSubExpr(), depth);
    if (auto *E = dyn_cast<ExprWithCleanups>(S)) return X(E->getSubExpr(), depth);
    if (auto *E = dyn_cast<MaterializeTemporaryExpr>(S)) return X(E->getSubExpr(), depth);
    if (auto *E = dyn_cast<CXXBindTemporaryExpr>(S)) return X(E->getSubExpr(), depth);
    if (auto *E = dyn_cast<ConstantExpr>(S)) return X(E->getSubExpr(), depth);
    if (auto *E = dyn_cast<SubstNonTypeTemplateParmExpr>(S)) return X(E->getReplacement(), depth);
    if (auto *E = dyn_cast<CXXStdInitializerListExpr>(S)) return X(E->getSubExpr(), depth);
    if (auto *E = dyn_cast<CXXDefaultInitExpr>(S)) return X(E->getExpr(), depth);
    if (auto *E = dyn_cast<FullExpr>(S)) return X(E->getSubExpr(), depth);
    if (auto *E = dyn_cast<ImplicitCastExpr>(S)) {
      CastKind ck = E->getCastKind();
      if (ck == CK_FloatingToIntegral) {
        // keep float->int conversions visible (C09 rule 3); every other
        // implicit cast is transparent
        o["k"] = "cast";
        o["ck"] = E->getCastKindName();
        o["impl"] = true;
        o["t"] = typeId(E->getType());
        o["e"] = X(E->getSubExpr(), depth - 1);
        o["ln"] = lineOf(E->getBeginLoc());
        tag(o, S);
        return std::move(o);
      }
      return X(E->getSubExpr(), depth);
    }
    auto it = elemId.find(S);
    if (it != elemId.end()) o["i"] = it->second;
    o["ln"] = lineOf(S->getBeginLoc());

    if (auto *E = dyn_cast<DeclRefExpr>(S)) {
      json::Value v = var(E->getDecl(), E);
      return v;
    }
    if (isa<CXXThisExpr>(S)) {
      o["k"] = "this";
      return std::move(o);
    }
    if (auto *E = dyn_cast<MemberExpr>(S)) {
      const ValueDecl *MD = E->getMemberDecl();
      if (isa<FieldDecl>(MD) || isa<VarDecl>(MD)) {
        o["k"] = "mem";
        o["n"] = MD->getNameAsString();
        o["base"] = X(E->getBase(), depth - 1);
        if (E->isArrow()) o["arrow"] = true;
        if (auto *FD = dyn_cast<FieldDecl>(MD)) {
          o["cls"] = qname(FD->getParent());
          if (FD->isMutable()) o["mut"] = true;
        } else
          o["static"] = true;
        o["t"] = typeId(MD->getType());
        return std::move(o);
      }
      // bound member function (callee of a member call) – rendered by the call
      o["k"] = "memfn";
      o["n"] = MD->getNameAsString();
      o["base"] = X(E->getBase(), depth - 1);
      return std::move(o);
    }
    if (auto *E = dyn_cast<IntegerLiteral>(S)) {
      o["k"] = "int";
      o["v"] = (int64_t)E->getValue().getLimitedValue();
      return std::move(o);
    }
    if (auto *E = dyn_cast<FloatingLiteral>(S)) {
      o["k"] = "flt";
      {
        double dv = E->getValueAsApproximateDouble();
        if (dv == dv && dv - dv == 0) o["v"] = dv;
        else o["v"] = dv != dv ? "nan" : (dv > 0 ? "inf" : "-inf");
      }
      return std::move(o);
    }
    if (auto *E = dyn_cast<CXXBoolLiteralExpr>(S)) {
      o["k"] = "bool";
      o["v"] = E->getValue();
      return std::move(o);
    }
    if (isa<CXXNullPtrLiteralExpr>(S) || isa<GNUNullExpr>(S)) {
      o["k"] = "nullptr";
      return std::move(o);
    }
    if (auto *E = dyn_cast<StringLiteral>(S)) {
      o["k"] = "str";
      if (E->isAscii()) o["v"] = E->getString().str();
      return std::move(o);
    }
    if (auto *E = dyn_cast<CharacterLiteral>(S)) {
      o["k"] = "int";
      o["v"] = (int64_t)E->getValue();
      return std::move(o);
    }
    if (auto *E = dyn_cast<UnaryOperator>(S)) {
      o["k"] = "un";
      o["op"] = UnaryOperator::getOpcodeStr(E->getOpcode()).str();
      if (E->isPostfix()) o["post"] = true;
      o["e"] = X(E->getSubExpr(), depth - 1);
      o["t"] = typeId(E->getType());
      return std::move(o);
    }
    if (auto *E = dyn_cast<BinaryOperator>(S)) {
      o["k"] = "bin";
      o["op"] = E->getOpcodeStr().str();
      o["l"] = X(E->getLHS(), depth - 1);
      o["r"] = X(E->getRHS(), depth - 1);
      o["t"] = typeId(E->getType());
      return std::move(o);
    }
    if (auto *E = dyn_cast<AbstractConditionalOperator>(S)) {
      o["k"] = "cond";
      o["c"] = X(E->getCond(), depth - 1);
      o["a"] = X(E->getTrueExpr(), depth - 1);
      o["b"] = X(E->getFalseExpr(), depth - 1);
      return std::move(o);
    }
    if (auto *E = dyn_cast<CXXDefaultArgExpr>(S)) {
      o["k"] = "defarg";
      o["e"] = X(E->getExpr(), depth - 1);
      return std::move(o);
    }
    if (auto *E = dyn_cast<ArraySubscriptExpr>(S)) {
      o["k"] = "sub";
      o["base"] = X(E->getBase(), depth - 1);
      o["idx"] = X(E->getIdx(), depth - 1);
      o["t"] = typeId(E->getType());
      return std::move(o);
    }
    if (auto *E = dyn_cast<ExplicitCastExpr>(S)) {
      o["k"] = "cast";
      o["ck"] = E->getCastKindName();
      const char *form = "c";
      if (isa<CXXStaticCastExpr>(E)) form = "static";
      else if (isa<CXXConstCastExpr>(E)) form = "const";
      else if (isa<CXXReinterpretCastExpr>(E)) form = "reinterpret";
      else if (isa<CXXDynamicCastExpr>(E)) form = "dynamic";
      else if (isa<CXXFunctionalCastExpr>(E)) form = "functional";
      o["form"] = form;
      o["t"] = typeId(E->getTypeAsWritten());
      o["from"] = typeId(E->getSubExpr()->getType());
      o["e"] = X(E->getSubExpr(), depth - 1);
      return std::move(o);
    }
    if (auto *E = dyn_cast<CXXConstructExpr>(S)) {
      const CXXConstructorDecl *CD = E->getConstructor();
      if (E->isElidable() && E->getNumArgs() == 1) return X(E->getArg(0), depth);
      o["k"] = "ctor";
      o["cls"] = qname(CD->getParent());
      o["t"] = typeId(E->getType());
      if (CD->isCopyConstructor()) o["copy"] = true;
      if (CD->isMoveConstructor()) o["move"] = true;
      if (wantBody(CD)) o["fk"] = fnKey(CD);
      json::Array pn;
      for (const ParmVarDecl *P : CD->parameters()) pn.push_back(P->getNameAsString());
      o["pn"] = std::move(pn);
      json::Array a;
      for (const Expr *A : E->arguments()) a.push_back(X(A, depth - 1));
      o["args"] = std::move(a);
      if (isa<CXXTemporaryObjectExpr>(E)) o["temp"] = true;
      return std::move(o);
    }
    if (auto *E = dyn_cast<CXXNewExpr>(S)) {
      o["k"] = "new";
      o["t"] = typeId(E->getAllocatedType());
      json::Array a;
      for (const Expr *A : E->placement_arguments()) a.push_back(X(A, depth - 1));
      o["place"] = std::move(a);
      if (E->getInitializer()) o["init"] = X(E->getInitializer(), depth - 1);
      if (E->isArray()) o["array"] = true;
      return std::move(o);
    }
    if (auto *E = dyn_cast<CXXDeleteExpr>(S)) {
      o["k"] = "delete";
      o["e"] = X(E->getArgument(), depth - 1);
      o["t"] = typeId(E->getDestroyedType());
      if (E->isArrayForm()) o["array"] = true;
      return std::move(o);
    }
    if (auto *E = dyn_cast<LambdaExpr>(S)) {
      o["k"] = "lambda";
      const CXXMethodDecl *Op = E->getCallOperator();
      o["fk"] = fnKey(Op);
      json::Array caps;
      for (const LambdaCapture &C : E->captures()) {
        json::Object c;
        if (C.capturesThis()) c["n"] = "this";
        else if (C.capturesVariable()) {
          c["n"] = C.getCapturedVar()->getNameAsString();
          c["d"] = locStr(C.getCapturedVar()->getLocation());
          c["t"] = typeId(C.getCapturedVar()->getType());
        }
        c["ref"] = C.getCaptureKind() == LCK_ByRef;
        caps.push_back(std::move(c));
      }
      o["caps"] = std::move(caps);
      // init-captures
      json::Array inits;
      for (const Expr *I : E->capture_inits()) inits.push_back(X(I, depth - 2));
      o["inits"] = std::move(inits);
      queueLambda(E);
      return std::move(o);
    }
    if (auto *E = dyn_cast<CallExpr>(S)) {
      o["k"] = "call";
      const FunctionDecl *FD = E->getDirectCallee();
      o["t"] = typeId(E->getType());
      unsigned firstArg = 0;
      if (FD) {
        o["fn"] = fnName(FD);
        if (wantBody(FD)) o["fk"] = fnKey(FD);
        json::Array pn;
        for (const ParmVarDecl *P : FD->parameters()) pn.push_back(P->getNameAsString());
        o["pn"] = std::move(pn);
        if (auto *MD = dyn_cast<CXXMethodDecl>(FD)) {
          o["mcls"] = qname(MD->getParent());
          if (MD->isVirtual()) o["virt"] = true;
          if (MD->isConst()) o["mconst"] = true;
          if (MD->isStatic()) o["mstatic"] = true;
        }
      } else {
        o["fn"] = "?";
        o["callee"] = X(E->getCallee(), depth - 1);
      }
      if (auto *MC = dyn_cast<CXXMemberCallExpr>(E)) {
        o["recv"] = X(MC->getImplicitObjectArgument(), depth - 1);
        if (auto *ME = dyn_cast<MemberExpr>(MC->getCallee()->IgnoreParens()))
          if (ME->isArrow()) o["arrow"] = true;
      } else if (auto *OC = dyn_cast<CXXOperatorCallExpr>(E)) {
        o["op"] = getOperatorSpelling(OC->getOperator());
        if (FD && isa<CXXMethodDecl>(FD) && !cast<CXXMethodDecl>(FD)->isStatic() &&
            OC->getNumArgs() > 0) {
          o["recv"] = X(OC->getArg(0), depth - 1);
          firstArg = 1;
        }
      }
      json::Array a;
      for (unsigned i = firstArg; i < E->getNumArgs(); ++i)
        a.push_back(X(E->getArg(i), depth - 1));
      o["args"] = std::move(a);
      return std::move(o);
    }
    if (auto *E = dyn_cast<InitListExpr>(S)) {
      o["k"] = "ilist";
      o["t"] = typeId(E->getType());
      json::Array a;
      for (const Expr *I : E->inits()) a.push_back(X(I, depth - 1));
      o["args"] = std::move(a);
      return std::move(o);
    }
    if (auto *E = dyn_cast<UnaryExprOrTypeTraitExpr>(S)) {
      o["k"] = "sizeof";
      if (E->isArgumentType()) o["t"] = typeId(E->getArgumentType());
      else o["t"] = typeId(E->getArgumentExpr()->getType());
      o["kind"] = (int)E->getKind();
      return std::move(o);
    }
    if (auto *E = dyn_cast<ReturnStmt>(S)) {
      o["k"] = "return";
      if (E->getRetValue()) o["e"] = X(E->getRetValue(), depth - 1);
      return std::move(o);
    }
    if (auto *E = dyn_cast<DeclStmt>(S)) {
      o["k"] = "decl";
      json::Array vs;
      for (const Decl *D : E->decls()) {
        if (auto *VD = dyn_cast<VarDecl>(D)) {
          json::Object v;
          v["n"] = VD->getNameAsString();
          v["d"] = locStr(VD->getLocation());
          v["t"] = typeId(VD->getType());
          if (VD->isStaticLocal()) v["static"] = true;
          if (VD->hasInit()) v["init"] = X(VD->getInit(), depth - 1);
          if (auto *DD = dyn_cast<DecompositionDecl>(VD)) {
            json::Array b;
            for (auto *B : DD->bindings()) b.push_back(B->getNameAsString());
            v["bindings"] = std::move(b);
          }
          vs.push_back(std::move(v));
        }
      }
      o["vars"] = std::move(vs);
      return std::move(o);
    }
    if (auto *E = dyn_cast<CXXThrowExpr>(S)) {
      o["k"] = "throw";
      if (E->getSubExpr()) o["e"] = X(E->getSubExpr(), depth - 1);
      return std::move(o);
    }
    if (auto *E = dyn_cast<CXXScalarValueInitExpr>(S)) {
      o["k"] = "zero";
      o["t"] = typeId(E->getType());
      return std::move(o);
    }
    if (auto *E = dyn_cast<ImplicitValueInitExpr>(S)) {
      o["k"] = "zero";
      o["t"] = typeId(E->getType());
      return std::move(o);
    }
    // generic fallback keeps children so nested calls are not lost
    o["k"] = "other";
    o["c"] = S->getStmtClassName();
    json::Array ch;
    for (const Stmt *C : S->children())
      if (C) ch.push_back(X(C, depth - 1));
    if (!ch.empty()) o["ch"] = std::move(ch);
    return std::move(o);
  }

  void tag(json::Object &o, const Stmt *S) {
    auto it = elemId.find(S);
    if (it != elemId.end()) o["i"] = it->second;
  }

  void queueLambda(const LambdaExpr *LE) {
    if (LE->isGenericLambda()) {
      if (FunctionTemplateDecl *FT = LE->getDependentCallOperator())
        for (FunctionDecl *Sp : FT->specializations()) queue(Sp);
    } else {
      queue(LE->getCallOperator());
    }
  }

  void queue(const FunctionDecl *FD) {
    if (!FD) return;
    const FunctionDecl *Def = nullptr;
    if (!FD->hasBody(Def)) return;
    if (!Def->doesThisDeclarationHaveABody()) return;
    if (Def->isDependentContext()) return;
    if (!underRoot(Def->getLocation())) return;
    if (skipped(Def->getLocation())) return;
    if (!seenFn.insert(Def->getCanonicalDecl()).second) return;
    work.push_back(Def);
  }

  static bool interesting(const Stmt *S) {
    if (isa<CallExpr>(S) || isa<CXXConstructExpr>(S) || isa<CXXNewExpr>(S) ||
        isa<CXXDeleteExpr>(S) || isa<ReturnStmt>(S) || isa<DeclStmt>(S) ||
        isa<LambdaExpr>(S) || isa<ArraySubscriptExpr>(S) || isa<ExplicitCastExpr>(S) ||
        isa<CXXThrowExpr>(S))
      return true;
    if (auto *B = dyn_cast<BinaryOperator>(S))
      return B->isAssignmentOp() || B->isCompoundAssignmentOp() ||
             B->getOpcode() == BO_Div || B->getOpcode() == BO_Rem;
    if (auto *U = dyn_cast<UnaryOperator>(S)) return U->isIncrementDecrementOp();
    if (auto *M = dyn_cast<MemberExpr>(S))
      return isa<FieldDecl>(M->getMemberDecl());
    if (auto *C = dyn_cast<ImplicitCastExpr>(S))
      return C->getCastKind() == CK_FloatingToIntegral;
    return false;
  }

  void emitFunction(const FunctionDecl *FD) {
    std::string key = fnKey(FD);
    if (!seenKey.insert(key).second) return;
    json::Object f;
    f["key"] = key;
    f["name"] = fnName(FD);
    f["file"] = rel(fileOf(FD->getLocation()));
    f["line"] = lineOf(FD->getLocation());
    f["endLine"] = lineOf(FD->getEndLoc());
    f["ret"] = typeId(FD->getReturnType());
    const char *kind = "function";
    if (isLambdaOp(FD)) kind = "lambda";
    else if (isa<CXXConstructorDecl>(FD)) kind = "ctor";
    else if (isa<CXXDestructorDecl>(FD)) kind = "dtor";
    else if (isa<CXXConversionDecl>(FD)) kind = "conv";
    else if (isa<CXXMethodDecl>(FD)) kind = "method";
    f["kind"] = kind;
    if (auto *MD = dyn_cast<CXXMethodDecl>(FD)) {
      f["cls"] = qname(MD->getParent());
      f["const"] = MD->isConst();
      f["static"] = MD->isStatic();
      f["virtual"] = MD->isVirtual();
      switch (MD->getAccess()) {
        case AS_public: f["access"] = "public"; break;
        case AS_protected: f["access"] = "protected"; break;
        case AS_private: f["access"] = "private"; break;
        default: break;
      }
      if (isLambdaOp(FD)) {
        const FunctionDecl *P = enclosingFn(MD->getParent()->getDeclContext());
        if (P) f["parent"] = fnKey(P);
      }
    }
    if (FD->isTemplateInstantiation()) {
      f["tmpl"] = true;
      if (const FunctionDecl *Pat = FD->getTemplateInstantiationPattern())
        f["patline"] = lineOf(Pat->getLocation());
    }
    if (FD->isOverloadedOperator()) f["op"] = getOperatorSpelling(FD->getOverloadedOperator());
    if (FD->isExternC()) f["externC"] = true;
    if (FD->isDefaulted()) f["defaulted"] = true;
    json::Array ps;
    for (const ParmVarDecl *P : FD->parameters()) {
      json::Object p;
      p["n"] = P->getNameAsString();
      p["t"] = typeId(P->getType());
      p["d"] = locStr(P->getLocation());
      if (P->hasDefaultArg() && !P->hasUninstantiatedDefaultArg() &&
          !P->hasUnparsedDefaultArg())
        p["def"] = X(P->getDefaultArg(), 4);
      ps.push_back(std::move(p));
    }
    f["params"] = std::move(ps);

    CFG::BuildOptions BO;
    BO.setAllAlwaysAdd();
    BO.AddImplicitDtors = true;
    BO.AddTemporaryDtors = true;
    BO.AddInitializers = true;
    std::unique_ptr<CFG> cfg = CFG::buildCFG(FD, FD->getBody(), &Ctx, BO);
    if (!cfg) {
      f["nocfg"] = true;
      writeFn(std::move(f));
      return;
    }
    // pass 1: number the interesting statement elements
    elemId.clear();
    int n = 0;
    for (const CFGBlock *B : *cfg)
      for (const CFGElement &E : *B) {
        if (auto SE = E.getAs<CFGStmt>()) {
          if (interesting(SE->getStmt())) elemId[SE->getStmt()] = n++;
        } else
          n++;
      }
    f["entry"] = (int)cfg->getEntry().getBlockID();
    f["exit"] = (int)cfg->getExit().getBlockID();
    json::Array blocks;
    n = 0;
    for (const CFGBlock *B : *cfg) {
      json::Object b;
      b["id"] = (int)B->getBlockID();
      json::Array succ;
      for (auto I = B->succ_begin(); I != B->succ_end(); ++I) {
        const CFGBlock *SB = I->getReachableBlock();
        succ.push_back(SB ? (int)SB->getBlockID() : -1);
      }
      b["succ"] = std::move(succ);
      json::Array ev;
      for (const CFGElement &E : *B) {
        if (auto SE = E.getAs<CFGStmt>()) {
          const Stmt *S = SE->getStmt();
          if (!interesting(S)) continue;
          json::Value v = X(S, OptDepth);
          ev.push_back(std::move(v));
          n++;
        } else if (auto IE = E.getAs<CFGInitializer>()) {
          const CXXCtorInitializer *I = IE->getInitializer();
          json::Object o;
          o["i"] = n++;
          if (I->isAnyMemberInitializer()) {
            o["k"] = "init";
            o["n"] = I->getAnyMember()->getNameAsString();
            o["t"] = typeId(I->getAnyMember()->getType());
          } else {
            o["k"] = "baseinit";
            if (I->getBaseClass())
              o["t"] = typeId(QualType(I->getBaseClass(), 0));
          }
          o["written"] = I->isWritten();
          o["ln"] = lineOf(I->getSourceLocation());
          o["e"] = X(I->getInit(), OptDepth);
          ev.push_back(std::move(o));
        } else if (auto DE = E.getAs<CFGAutomaticObjDtor>()) {
          json::Object o;
          o["i"] = n++;
          o["k"] = "dtor";
          const VarDecl *VD = DE->getVarDecl();
          o["n"] = VD->getNameAsString();
          o["d"] = locStr(VD->getLocation());
          o["t"] = typeId(VD->getType());
          o["ln"] = lineOf(DE->getTriggerStmt() ? DE->getTriggerStmt()->getEndLoc()
                                                 : VD->getLocation());
          ev.push_back(std::move(o));
        } else if (auto TE = E.getAs<CFGTemporaryDtor>()) {
          json::Object o;
          o["i"] = n++;
          o["k"] = "tdtor";
          o["t"] = typeId(TE->getBindTemporaryExpr()->getType());
          o["ln"] = lineOf(TE->getBindTemporaryExpr()->getEndLoc());
          ev.push_back(std::move(o));
        } else {
          json::Object o;
          o["i"] = n++;
          o["k"] = "cfgother";
          o["kind"] = (int)E.getKind();
          ev.push_back(std::move(o));
        }
      }
      b["ev"] = std::move(ev);
      if (const Stmt *T = B->getTerminatorStmt()) {
        json::Object t;
        t["c"] = T->getStmtClassName();
        t["ln"] = lineOf(T->getBeginLoc());
        if (const Stmt *C = B->getTerminatorCondition()) t["cond"] = X(C, OptDepth);
        if (auto *BOp = dyn_cast<BinaryOperator>(T)) t["op"] = BOp->getOpcodeStr().str();
        if (isa<IfStmt>(T) && cast<IfStmt>(T)->isConstexpr()) t["constexpr"] = true;
        b["term"] = std::move(t);
      }
      if (const Stmt *L = B->getLabel()) {
        if (auto *CS = dyn_cast<CaseStmt>(L)) {
          json::Object l;
          l["k"] = "case";
          l["e"] = X(CS->getLHS(), 4);
          b["label"] = std::move(l);
        } else if (isa<DefaultStmt>(L)) {
          json::Object l;
          l["k"] = "default";
          b["label"] = std::move(l);
        }
      }
      if (B->hasNoReturnElement()) b["noreturn"] = true;
      blocks.push_back(std::move(b));
    }
    f["blocks"] = std::move(blocks);
    writeFn(std::move(f));
  }

  void writeFn(json::Object f) {
    if (!firstFn) OS << ",\n";
    firstFn = false;
    OS << json::Value(std::move(f));
  }
};

// Collects declarations; function bodies are processed through a work list so
// that lambdas discovered while rendering are picked up too.
struct Visitor : RecursiveASTVisitor<Visitor> {
  Extractor &X;
  json::Array classes, enums, vars, decls;
  std::set<std::string> seenCls;
  explicit Visitor(Extractor &x) : X(x) {}
  bool shouldVisitTemplateInstantiations() const { return true; }
  bool shouldVisitImplicitCode() const { return false; }

  bool VisitFunctionDecl(FunctionDecl *FD) {
    if (FD->isDependentContext()) return true;
    if (!X.underRoot(FD->getLocation())) return true;
    if (FD->doesThisDeclarationHaveABody()) {
      X.queue(FD);
    } else if (!FD->isTemplateInstantiation() && !isa<CXXMethodDecl>(FD)) {
      json::Object d;
      d["name"] = X.qname(FD);
      d["file"] = X.rel(X.fileOf(FD->getLocation()));
      d["line"] = X.lineOf(FD->getLocation());
      d["ret"] = X.typeId(FD->getReturnType());
      d["externC"] = FD->isExternC();
      json::Array ps;
      for (const ParmVarDecl *P : FD->parameters()) {
        json::Object p;
        p["n"] = P->getNameAsString();
        p["t"] = X.typeId(P->getType());
        ps.push_back(std::move(p));
      }
      d["params"] = std::move(ps);
      decls.push_back(std::move(d));
    }
    return true;
  }
  bool VisitLambdaExpr(LambdaExpr *LE) {
    if (!X.underRoot(LE->getBeginLoc())) return true;
    if (const auto *Op = LE->getCallOperator())
      if (Op->isDependentContext() && !LE->isGenericLambda()) return true;
    X.queueLambda(LE);
    return true;
  }
  bool VisitCXXRecordDecl(CXXRecordDecl *RD) {
    if (!RD->isThisDeclarationADefinition()) return true;
    if (RD->isDependentContext() || RD->isLambda()) return true;
    if (!X.underRoot(RD->getLocation())) return true;
    std::string name;
    {
      llvm::raw_string_ostream so(name);
      RD->getNameForDiagnostic(so, X.PP, true);
    }
    if (!seenCls.insert(name).second) return true;
    json::Object c;
    c["name"] = name;
    c["qname"] = X.qname(RD);
    c["file"] = X.rel(X.fileOf(RD->getLocation()));
    c["line"] = X.lineOf(RD->getLocation());
    if (isa<ClassTemplateSpecializationDecl>(RD)) c["tmpl"] = true;
    json::Array bases;
    for (const CXXBaseSpecifier &B : RD->bases()) bases.push_back(B.getType().getAsString(X.PP));
    c["bases"] = std::move(bases);
    json::Array fields;
    for (const Decl *D : RD->decls()) {
      if (auto *FD = dyn_cast<FieldDecl>(D)) {
        json::Object f;
        f["n"] = FD->getNameAsString();
        f["t"] = X.typeId(FD->getType());
        f["mutable"] = FD->isMutable();
        f["line"] = X.lineOf(FD->getLocation());
        f["access"] = (int)FD->getAccess();
        f["hasInit"] = FD->hasInClassInitializer();
        fields.push_back(std::move(f));
      } else if (auto *VD = dyn_cast<VarDecl>(D)) {
        json::Object f;
        f["n"] = VD->getNameAsString();
        f["t"] = X.typeId(VD->getType());
        f["static"] = true;
        f["line"] = X.lineOf(VD->getLocation());
        f["constexpr"] = VD->isConstexpr();
        f["access"] = (int)VD->getAccess();
        fields.push_back(std::move(f));
      }
    }
    c["fields"] = std::move(fields);
    json::Array methods;
    for (const Decl *D : RD->decls()) {
      const CXXMethodDecl *MD = dyn_cast<CXXMethodDecl>(D);
      if (!MD)
        if (auto *FT = dyn_cast<FunctionTemplateDecl>(D))
          MD = dyn_cast<CXXMethodDecl>(FT->getTemplatedDecl());
      if (!MD || MD->isImplicit()) continue;
      json::Object m;
      m["n"] = MD->getNameAsString();
      m["const"] = MD->isConst();
      m["static"] = MD->isStatic();
      m["virtual"] = MD->isVirtual();
      m["access"] = (int)MD->getAccess();
      m["deleted"] = MD->isDeleted();
      m["defaulted"] = MD->isDefaulted();
      m["line"] = X.lineOf(MD->getLocation());
      const char *kind = "method";
      if (isa<CXXConstructorDecl>(MD)) kind = "ctor";
      else if (isa<CXXDestructorDecl>(MD)) kind = "dtor";
      else if (isa<CXXConversionDecl>(MD)) kind = "conv";
      m["kind"] = kind;
      if (MD->isOverloadedOperator()) m["op"] = getOperatorSpelling(MD->getOverloadedOperator());
      m["ret"] = X.typeId(MD->getReturnType());
      json::Array ps;
      for (const ParmVarDecl *P : MD->parameters()) {
        json::Object p;
        p["n"] = P->getNameAsString();
        p["t"] = X.typeId(P->getType());
        ps.push_back(std::move(p));
      }
      m["params"] = std::move(ps);
      methods.push_back(std::move(m));
    }
    c["methods"] = std::move(methods);
    classes.push_back(std::move(c));
    return true;
  }
  bool VisitEnumDecl(EnumDecl *ED) {
    if (!ED->isThisDeclarationADefinition()) return true;
    if (ED->isDependentContext()) return true;
    if (!X.underRoot(ED->getLocation())) return true;
    json::Object e;
    e["name"] = X.qname(ED);
    e["file"] = X.rel(X.fileOf(ED->getLocation()));
    e["line"] = X.lineOf(ED->getLocation());
    json::Array en;
    for (const EnumConstantDecl *C : ED->enumerators()) {
      json::Object o;
      o["n"] = C->getNameAsString();
      o["v"] = (int64_t)C->getInitVal().getExtValue();
      en.push_back(std::move(o));
    }
    e["enumerators"] = std::move(en);
    enums.push_back(std::move(e));
    return true;
  }
  bool VisitVarDecl(VarDecl *VD) {
    if (isa<ParmVarDecl>(VD)) return true;
    if (VD->isLocalVarDecl() && !VD->isStaticLocal()) return true;
    if (VD->getDeclContext()->isDependentContext()) return true;
    if (!X.underRoot(VD->getLocation())) return true;
    if (!VD->isThisDeclarationADefinition() && !VD->isStaticDataMember()) return true;
    json::Object v;
    v["name"] = X.qname(VD);
    v["file"] = X.rel(X.fileOf(VD->getLocation()));
    v["line"] = X.lineOf(VD->getLocation());
    v["t"] = X.typeId(VD->getType());
    v["constexpr"] = VD->isConstexpr();
    v["const"] = VD->getType().isConstQualified();
    v["staticLocal"] = VD->isStaticLocal();
    v["threadLocal"] = VD->getTLSKind() != VarDecl::TLS_None;
    if (VD->isStaticLocal())
      if (const FunctionDecl *F = X.enclosingFn(VD->getDeclContext())) v["fn"] = X.fnName(F);
    if (VD->hasInit() && !VD->getInit()->isValueDependent()) {
      Expr::EvalResult R;
      if (VD->getType()->isIntegralOrEnumerationType() &&
          VD->getInit()->EvaluateAsInt(R, X.Ctx))
        v["val"] = (int64_t)R.Val.getInt().getExtValue();
      else if (VD->getType()->isFloatingType() && VD->getInit()->EvaluateAsRValue(R, X.Ctx) &&
               R.Val.isFloat())
      {
        double dv = R.Val.getFloat().convertToDouble();
        if (dv == dv && dv - dv == 0) v["fval"] = dv;
        else v["fvals"] = dv != dv ? "nan" : (dv > 0 ? "inf" : "-inf");
      }
    }
    vars.push_back(std::move(v));
    return true;
  }
};

class Consumer : public ASTConsumer {
 public:
  void HandleTranslationUnit(ASTContext &Ctx) override {
    if (Ctx.getDiagnostics().hasErrorOccurred()) {
      llvm::errs() << "mfx: parse errors, no output\n";
      return;
    }
    std::error_code EC;
    std::unique_ptr<llvm::raw_fd_ostream> file;
    llvm::raw_ostream *os = &llvm::outs();
    if (OptOut != "-") {
      file = std::make_unique<llvm::raw_fd_ostream>(OptOut, EC);
      if (EC) {
        llvm::errs() << "mfx: cannot open " << OptOut << "\n";
        return;
      }
      os = file.get();
    }
    Extractor X(Ctx, *os);
    Visitor V(X);
    *os << "{\"functions\":[\n";
    V.TraverseDecl(Ctx.getTranslationUnitDecl());
    while (!X.work.empty()) {
      const FunctionDecl *FD = X.work.back();
      X.work.pop_back();
      X.emitFunction(FD);
    }
    *os << "\n],\n\"classes\":" << json::Value(std::move(V.classes));
    *os << ",\n\"enums\":" << json::Value(std::move(V.enums));
    *os << ",\n\"vars\":" << json::Value(std::move(V.vars));
    *os << ",\n\"decls\":" << json::Value(std::move(V.decls));
    *os << ",\n\"types\":" << json::Value(std::move(X.typeTab));
    *os << "}\n";
  }
};

class Action : public ASTFrontendAction {
 public:
  std::unique_ptr<ASTConsumer> CreateASTConsumer(CompilerInstance &, llvm::StringRef) override {
    return std::make_unique<Consumer>();
  }
};

}  // namespace

int main(int argc, const char **argv) {
  auto Opts = CommonOptionsParser::create(argc, argv, Cat);
  if (!Opts) {
    llvm::errs() << llvm::toString(Opts.takeError()) << "\n";
    return 2;
  }
  ClangTool Tool(Opts->getCompilations(), Opts->getSourcePathList());
  return Tool.run(newFrontendActionFactory<Action>().get());
}
