#include "shared.h"
#include <cstdio>
using namespace manifold;
int main(){
  Halfedges a(6); for(int i=0;i<6;i++) a.Set(i,i,i,i);
  Halfedges b(a);            // copy-construct
  Halfedges c; c = a;        // copy-assign
  printf("a=%p b=%p c=%p\n",(void*)a.start_.data(),(void*)b.start_.data(),(void*)c.start_.data());
  c.SetStart(0,99); printf("a.Start(0) after writing c without MakeUnique: %d\n", a.Start(0));
}
