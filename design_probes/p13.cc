#include <cstdlib>
#include "manifold/manifold.h"
#include <cstdio>
#include <cmath>
using namespace manifold;
static void show(const char* n, const Manifold& m){ printf("%-34s status=%d tris=%zu vol=%g\n", n, (int)m.Status(), m.NumTri(), m.Volume()); }
int main(int argc,char**argv){ setvbuf(stdout,nullptr,_IONBF,0); int w=atoi(argv[1]);
  Polygons sq = {{{1,0},{2,0},{2,1},{1,1}}};
  if(w==__LINE__) show("Revolve(deg=0)", Manifold::Revolve(sq, 0, 0.0));
  if(w==__LINE__) show("Revolve(deg=-90)", Manifold::Revolve(sq, 0, -90.0));
  if(w==__LINE__) show("Revolve(deg=NaN)", Manifold::Revolve(sq, 0, NAN));
  if(w==__LINE__) show("Revolve(deg=1e-9)", Manifold::Revolve(sq, 0, 1e-9));
  if(w==__LINE__) show("Extrude(h=NaN)", Manifold::Extrude(sq, NAN));
  if(w==__LINE__) show("Extrude(nDiv=-5)", Manifold::Extrude(sq, 1.0, -5));
  if(w==__LINE__) show("Cylinder(h=inf)", Manifold::Cylinder(INFINITY, 1.0));
  if(w==__LINE__) show("Sphere(NaN)", Manifold::Sphere(NAN));
  if(w==__LINE__) show("Cube(NaN)", Manifold::Cube({NAN,1,1}));
  if(w==__LINE__) show("RefineToLength(0)", Manifold::Cube().RefineToLength(0.0));
}
