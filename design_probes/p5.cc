#include "manifold/manifold.h"
#include <cstdio>
#include <vector>
#include <random>
using namespace manifold;
static int unref(const Manifold& m){
  MeshGL64 g = m.GetMeshGL64();
  std::vector<char> used(g.vertProperties.size()/g.numProp,0);
  for(auto v: g.triVerts) used[v]=1;
  int n=0; for(char c: used) n+=!c; return n;
}
int main(){
  std::mt19937 rng(1); std::uniform_real_distribution<double> U(-0.4,0.4);
  int bad=0, total=0;
  for(int it=0; it<40; ++it){
    Manifold a = Manifold::Cube({1,1,1},true);
    Manifold b = Manifold::Sphere(0.6, 12).Translate({U(rng),U(rng),U(rng)});
    Manifold r = (it%2? a-b : a+b).SmoothOut(50).RefineToLength(0.15);
    int u = unref(r); int chi = (int)r.NumVert() - (int)r.NumEdge() + (int)r.NumTri();
    total++; if(u>0 || chi%2){ bad++; if(bad<4) printf("it=%d unref=%d NumVert=%zu chi=%d status=%d\n", it,u,r.NumVert(),chi,(int)r.Status()); }
  }
  printf("P5 Refine: %d/%d results with unreferenced verts or odd Euler char\n", bad,total);
  // P6: Extrude with two coincident opposite-wound contours
  Polygons ps = {{{0,0},{1,0},{1,1},{0,1}}, {{0,1},{1,1},{1,0},{0,0}}};
  Manifold e = Manifold::Extrude(ps, 1.0);
  printf("P6 Extrude opposed: status=%d tris=%zu verts=%zu unref=%d\n",(int)e.Status(), e.NumTri(), e.NumVert(), e.NumTri()?unref(e):-1);
  Polygons ps2 = {{{0,0},{2,0},{2,2},{0,2}}, {{0.5,0.5},{0.5,1.5},{1.5,1.5},{1.5,0.5}}, {{0.5,0.5},{1.5,0.5},{1.5,1.5},{0.5,1.5}}};
  Manifold e2 = Manifold::Extrude(ps2, 1.0);
  printf("P6b Extrude hole+plug: status=%d tris=%zu verts=%zu unref=%d genus=%d\n",(int)e2.Status(), e2.NumTri(), e2.NumVert(), e2.NumTri()?unref(e2):-1, e2.Genus());
}
