#include "manifold/manifold.h"
#include <cstdio>
using namespace manifold;
int main(){
  Manifold A = Manifold::Cube({4,4,4}, true);                              // convex
  Manifold B = (Manifold::Cube({1,1,0.4}, true) + Manifold::Cube({0.4,0.4,1}, true).Translate({0.3,0.3,0.3})); // non-convex, contains origin
  B = B.AsOriginal();
  printf("B genus=%d vol=%.4f\n", B.Genus(), B.Volume());
  Manifold D = A.MinkowskiDifference(B);
  Box bb = D.BoundingBox();
  printf("A(-)B: status=%d vol=%.4f bbox=[%.2f %.2f %.2f]-[%.2f %.2f %.2f]  (A vol=64)\n",(int)D.Status(), D.Volume(), bb.min.x,bb.min.y,bb.min.z,bb.max.x,bb.max.y,bb.max.z);
  Manifold D2 = B.MinkowskiDifference(A);
  printf("B(-)A: status=%d vol=%.4f\n",(int)D2.Status(), D2.Volume());
  // reference: erosion of A by B's convex hull is a lower bound, by B's bbox... expected eroded cube ~ (4-1)*(4-1)*(4-1.x)
  Manifold Bh = B.Hull();
  Manifold D3 = A.MinkowskiDifference(Bh);
  printf("A(-)hull(B): vol=%.4f\n", D3.Volume());
}
