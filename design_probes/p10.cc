#include "manifold/manifold.h"
#include <thread>
#include <atomic>
#include <cstdio>
#include <vector>
using namespace manifold;
int main(){
  Manifold a = Manifold::Sphere(1.0, 24) - Manifold::Cube({1,1,1});   // non-convex
  Manifold b = Manifold::Cube({0.2,0.2,0.2}, true);                    // convex
  a.Status(); b.Status();
  ExecutionContext ctx;
  std::atomic<bool> done{false};
  std::vector<double> samples;
  std::thread obs([&]{ while(!done.load()) samples.push_back(ctx.Progress()); });
  Manifold s = a.WithContext(ctx).MinkowskiSum(b);
  auto st = s.Status();
  done = true; obs.join();
  int decreases=0; double maxdrop=0, prev=samples.empty()?0:samples[0], over=0;
  for(double p: samples){ if(p<prev){ decreases++; maxdrop=std::max(maxdrop,prev-p);} if(p>1.0) over=std::max(over,p); prev=p; }
  printf("status=%d samples=%zu decreases=%d maxdrop=%.3f maxOver1=%.3f final=%.3f\n",(int)st,samples.size(),decreases,maxdrop,over,ctx.Progress());
}
