#include "manifold/manifold.h"
#include <cstdio>
using namespace manifold;
int main(){
  Manifold A = Manifold::Cube({0.2,0.2,0.2}, true);                              // small convex
  Manifold B = (Manifold::Cube({4,4,1}, true) + Manifold::Cube({1,1,4}, true)).AsOriginal(); // big non-convex containing origin
  Manifold D = A.MinkowskiDifference(B);
  Box bb = D.BoundingBox();
  printf("A(-)B: status=%d vol=%.4f bbox=[%.2f %.2f %.2f]-[%.2f %.2f %.2f]  (A is the cube [-0.1,0.1]^3, vol 0.008)\n",(int)D.Status(), D.Volume(), bb.min.x,bb.min.y,bb.min.z,bb.max.x,bb.max.y,bb.max.z);
  Manifold outside = D - A;
  printf("part of result outside A: vol=%.4f\n", outside.Volume());
}
