#include "manifold/manifold.h"
#include <cstdio>
#include <cstdlib>
#include <cstring>
using namespace manifold;
int main(int argc,char**argv){
  MeshGL64 m = Manifold::Cube().GetMeshGL64();
  int which = atoi(argv[1]);
  if(which==0){ m.numProp = 0; }                      // division by zero in NumVert()
  if(which==1){ m.runIndex = {0, 3000000}; m.runOriginalID={5}; }  // runIndex beyond triVerts
  if(which==2){ m.halfedgeTangent.assign(8, 0.0); }   // wrong tangent length
  if(which==3){ MeshGL64 n=m; n.mergeFromVert={1000000}; n.mergeToVert={0}; n.Merge(); printf("merge ok\n"); return 0; }
  if(which==4){ MeshGL64 n=m; n.triVerts[0]=1000000; n.Merge(); printf("merge ok\n"); return 0; }
  Manifold x(m);
  printf("case %d status=%d tris=%zu\n", which, (int)x.Status(), x.NumTri());
}
