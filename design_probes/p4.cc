#define MANIFOLD_VERIF 1
#define MANIFOLD_PAR -1
#include "manifold/manifold.h"
#include "../scratch/repo/src/execution_impl.h"
#include <cstdio>
#include <vector>
using namespace manifold;
static bool closed(const Manifold& m, int* unref){
  MeshGL64 g = m.GetMeshGL64();
  size_t nv=g.vertProperties.size()/g.numProp; std::vector<char> used(nv,0);
  bool ok=true; for(auto v: g.triVerts){ if(v>=nv) ok=false; else used[v]=1; }
  int n=0; for(char c:used) n+=!c; *unref=n;
  for(double x: g.vertProperties) if(!(x==x)) ok=false;
  return ok;
}
int main(){ setvbuf(stdout,nullptr,_IONBF,0);
  Manifold base = (Manifold::Sphere(1.0, 48) + Manifold::Cube({1.2,1.2,1.2})).SmoothOut(50);
  base.Status();
  Manifold refFull = base.Refine(3);
  printf("uncancelled: status=%d\n",(int)refFull.Status()); printf("tris=%zu\n", refFull.NumTri()); printf("vol=%.12g\n", refFull.Volume());
  // count checks
  {
    ExecutionContext ctx; VerifCancelHook::Target() = ctx.impl_.get(); VerifCancelHook::Countdown() = -1; VerifCancelHook::Checks()=0;
    Manifold r = base.WithContext(ctx).Refine(3); r.Status();
    printf("checks in one Refine = %ld\n", VerifCancelHook::Checks().load());
  }
  long nchecks = VerifCancelHook::Checks().load();
  int partial=0, cancelled=0, complete=0;
  for(long k=0;k<nchecks;k++){
    ExecutionContext ctx; VerifCancelHook::Target() = ctx.impl_.get(); VerifCancelHook::Checks()=0; VerifCancelHook::Countdown() = k;
    Manifold r = base.WithContext(ctx).Refine(3);
    VerifCancelHook::Target() = nullptr;
    auto st = r.Status();
    if(st==Manifold::Error::Cancelled){ cancelled++; continue; }
    int unref=0; bool ok = closed(r,&unref);
    bool same = ok && r.NumTri()==refFull.NumTri() && r.NumVert()==refFull.NumVert() && r.Volume()==refFull.Volume();
    if(same && ok) complete++; else { partial++; if(partial<=5) printf("k=%ld status=%d tris=%zu verts=%zu (full %zu/%zu) vol=%.9g indexOK=%d unref=%d cancelledFlag=%d\n",k,(int)st,r.NumTri(),r.NumVert(),refFull.NumTri(),refFull.NumVert(),ok? r.Volume():-1.0,ok,unref,(int)ctx.Cancelled()); }
  }
  printf("P4 Refine: checks=%ld cancelled=%d complete=%d PARTIAL-ESCAPES=%d\n", nchecks,cancelled,complete,partial);
}
