#include "parallel.h"
#include <vector>
#include <numeric>
#include <cstdio>
using namespace manifold;
int main(){
  std::vector<long> v(1000000, 1);
  long par = manifold::reduce(ExecutionPolicy::Par, v.begin(), v.end(), 5L, std::plus<long>());
  long seq = std::reduce(v.begin(), v.end(), 5L, std::plus<long>());
  printf("reduce init=5: par=%ld seq=%ld %s\n", par, seq, par==seq?"equal":"DIFFER");
  // transform_reduce, count_if, exclusive_scan with non-zero init
  std::vector<long> out(v.size()), out2(v.size());
  manifold::exclusive_scan(ExecutionPolicy::Par, v.begin(), v.end(), out.begin(), 7L);
  std::exclusive_scan(v.begin(), v.end(), out2.begin(), 7L);
  printf("exclusive_scan init=7: %s (par last=%ld seq last=%ld)\n", out==out2?"equal":"DIFFER", out.back(), out2.back());
  // copy_if
  std::vector<long> a(v.size()), b(v.size());
  for(size_t i=0;i<v.size();++i) v[i]=i;
  auto e1 = manifold::copy_if(ExecutionPolicy::Par, v.begin(), v.end(), a.begin(), [](long x){return x%3==0;});
  auto e2 = std::copy_if(v.begin(), v.end(), b.begin(), [](long x){return x%3==0;});
  printf("copy_if: %s\n", (e1-a.begin()==e2-b.begin() && a==b)?"equal":"DIFFER");
}
