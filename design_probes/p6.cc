#include "manifold/manifold.h"
#include "manifold/cross_section.h"
#include <thread>
#include <cstdio>
using namespace manifold;
int main(){
  // (a) shared op sub-expression: T1 evaluates parent1.Status(); T2 calls parent2.WithContext(ctx).Status() -> NumLeaves reads cache_ unguarded
  for(int rep=0; rep<20; ++rep){
    Manifold shared = Manifold::Sphere(1.0, 64) - Manifold::Cube({1,1,1});     // op node
    Manifold p1 = shared + Manifold::Cube({0.2,0.2,0.2}).Translate({2,0,0});
    Manifold p2 = shared ^ Manifold::Sphere(0.9, 32);
    ExecutionContext ctx;
    std::thread t1([&]{ p1.Status(); });
    std::thread t2([&]{ p2.WithContext(ctx).Status(); });
    t1.join(); t2.join();
  }
  // (b) CrossSection: concurrent const calls GetTolerance vs Area (first materialisation)
  for(int rep=0; rep<20; ++rep){
    CrossSection c = CrossSection::Circle(1.0, 64).Scale({3,2});
    double tol=0, area=0;
    std::thread t1([&]{ area = c.Area(); });
    std::thread t2([&]{ tol = c.GetTolerance(); });
    t1.join(); t2.join();
  }
  printf("done\n");
}
