#include "manifold/cross_section.h"
#include "manifold/manifold.h"
#include <cstdio>
using namespace manifold;
int main(){
  // P1: CrossSection tolerance observable change (C05) 
  CrossSection c = CrossSection::Square({1,1});
  CrossSection t = c.Scale({1000,1000});
  double before = t.GetTolerance();
  double area = t.Area();   // const query; materialises the lazy transform
  double after = t.GetTolerance();
  printf("P1 tol before=%.17g after=%.17g area=%g changed=%d\n", before, after, area, before!=after);
  // Simplify() default tolerance before/after forcing
  CrossSection u = c.Scale({1000,1000});
  CrossSection s1 = u.Simplify();      // reads tolerance_ before GetPaths
  double tol_s1 = s1.GetTolerance();
  CrossSection s2 = u.Simplify();      // now materialised
  printf("P1b Simplify().GetTolerance first=%.17g second=%.17g\n", tol_s1, s2.GetTolerance());
}
