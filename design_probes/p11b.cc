#include "parallel.h"
#include <vector>
#include <numeric>
#include <cstdio>
using namespace manifold;
int main(){
  std::vector<long> v(20000000, 1);
  int differ=0;
  for(int rep=0;rep<20;++rep){
    long par = manifold::reduce(ExecutionPolicy::Par, v.begin(), v.end(), 5L, std::plus<long>());
    long seq = std::reduce(v.begin(), v.end(), 5L, std::plus<long>());
    if(par!=seq){ differ++; if(differ<4) printf("rep %d: par=%ld seq=%ld\n",rep,par,seq); }
  }
  printf("reduce(init=5) differs from std::reduce in %d/20 runs\n", differ);
}
