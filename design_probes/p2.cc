#include "manifold/manifold.h"
#include <cstdio>
using namespace manifold;
int main(){
  // P2 (C08): smoothed multi-run result, export, re-import, refine
  Manifold a = Manifold::Cube({1,1,1}).SmoothOut(60);   // hmm SmoothOut then boolean loses tangents; build 2-run then SmoothOut
  Manifold b = Manifold::Sphere(0.7, 16).Translate({0.5,0.5,0.5});
  Manifold u = (Manifold::Cube({1,1,1}) + b);          // two runs
  Manifold s = u.SmoothOut(50, 0.2);
  MeshGL64 m = s.GetMeshGL64();
  printf("runs=%zu tangents=%zu tris=%zu status=%d\n", m.runOriginalID.size(), m.halfedgeTangent.size()/4, m.triVerts.size()/3, (int)s.Status());
  Manifold direct = s.Refine(2);
  Manifold rt(m);
  Manifold rtr = rt.Refine(2);
  printf("direct refine status=%d tris=%zu vol=%.12g\n", (int)direct.Status(), direct.NumTri(), direct.Volume());
  printf("roundtrip status=%d ; refine status=%d tris=%zu vol=%.12g\n", (int)rt.Status(), (int)rtr.Status(), rtr.NumTri(), rtr.Volume());
}
