"""C18 — measurements and queries (structural clause): derived data (bounding box, BVH) is refreshed after
every geometry mutation before an Impl escapes; epsilon is derived from a fresh bounding box."""
import escape
import contracts

BITS = 'BK'


def main(chk, tier):
    import db as D
    configs = ['seq', 'par'] if tier == 'quick' else ['seq', 'par', 'seq-debug', 'par-debug']
    tab = escape.load_table()
    chk.rule('C18.1', 'no Impl escapes while its bounding box (B) or collider (K) is stale: every write to vertPos_ '
             '(element/whole assignment, a mutable view/begin() handed to a callee, functor or user callback) and '
             'every structural halfedge mutation is followed on all paths by CalculateBBox / SortGeometry / '
             'collider_.UpdateBoxes / collider_.Transform before the object is wrapped or returned; SetEpsilon is '
             'reached only with a fresh bounding box')
    chk.rule('C18.2', 'the freshness effects the typestate attributes to its primitives hold in their bodies: on every '
             'normal path SortGeometry assigns collider_ from a constructed Collider and bBox_ from it, CalculateBBox '
             'assigns both corners of bBox_ from vertPos_, MakeEmpty resets both (must-pass-through dataflow; '
             'cancel and emptiness early-outs excepted)')
    chk.rule('C18.3', 'every mutable or bool data member of Manifold::Impl (a cache of derived data writable through the shared '
             'const Impl, or an assertion about the geometry such as "is convex") is reset or re-assigned between any geometry mutation and the next escape (dynamic typestate bit per member; '
             'today Impl has none, the self-test mutant adds one)')
    for cfgname in configs:
        db = D.load(cfgname)
        chk.configs.append(cfgname)
        chk.units = len(db.units)
        chk.functions_analysed += len(db.functions)
        e = escape.Escape(db, tab, BITS, caches=True)
        res, reqv = e.run()
        escape.report(chk, e, res, reqv, 'C18.1', cfgname, BITS + ''.join(sorted(e.sbits)))
        chk.count('c18.3.mutable_cache_members', len(e.cache))
        for m, sym in sorted(e.cache.items()):
            chk.obligation(True, {'mutable Impl member tracked as cache': m, 'bit': sym})
        contracts.verify(chk, db, cfgname, 'C18.2', BITS)
    n = len(configs)
    chk.floor('c18.1.escape_points', 35 * n)
    chk.floor('c18.1.summarised_methods', 60 * n)
    chk.floor('c18.2.contract_clauses', 5 * n)
    return chk.finish(
        'Freshness typestate (bits B = bounding box stale, K = collider stale) over every function that creates or '
        'finishes a Manifold::Impl, with interprocedural gen/kill summaries of all Impl methods. BoundingBox, MinGap, '
        'RayCast, WindingNumber, Slice and every Boolean read bBox_/collider_ without recomputing them, so a stale '
        'value at an escape point is a wrong answer for some later query. Does not decide the sums, distances and '
        'crossings themselves.',
        assumptions=['position writes are recognised syntactically (assignment forms, view()/begin()/data() of '
                     'vertPos_ handed out, vertPos_ bound to a mutable reference parameter or functor field)'])
