"""C19 — Refine keeps the surface; Simplify only removes redundancy (structural clauses):
(1) the Refine path of the escape typestate: every vertex referenced after non-uniform subdivision;
(2) tolerance floor: every write to Impl::tolerance_ keeps tolerance_ >= epsilon_."""
import json
import os

import cfg as C
import escape
import tree as T
from db import AnalysisBroken, VERIF

IMPL = 'manifold::Manifold::Impl'


def rule_tolerance(chk, db, cfgname, tab):
    chk.rule('C19.2', 'every write to Impl::tolerance_ is order-preserving with respect to epsilon_: max(.., epsilon_) / '
             'max(tolerance_, ..), an assignment guarded by `new > tolerance_`, a copy or max of other Impls\' '
             'tolerances, a restore of a value saved from the same object, or a raw value followed on all paths by '
             'SetEpsilon (which re-establishes tolerance_ >= epsilon_); every write to epsilon_ is followed by such a '
             're-establishment or is itself a max/copy')
    reviewed = {(r['function'], r['form']): r['reason'] for r in tab.get('tolerance_writes_reviewed', [])}
    n = 0
    for f in db.functions.values():
        if not f.get('blocks'):
            continue
        g = None
        for b in f['blocks']:
            for idx, ev in enumerate(b['ev']):
                if ev.get('k') != 'bin' or ev.get('op') not in ('=', '*=', '+='):
                    continue
                l = T.strip(ev['l'])
                if l.get('k') != 'mem' or l.get('cls') != IMPL or l['n'] not in ('tolerance_', 'epsilon_'):
                    continue
                n += 1
                obj = T.pstr(l['base'])
                rhs = ev['r']
                form = None
                s = T.pstr(rhs)
                calls = [T.short(c.get('fn', '')) for c in T.calls(rhs)]
                mems = [x for x in T.walk(rhs) if x.get('k') == 'mem' and x.get('cls') == IMPL]
                eps_vals = _eps_assigned(f, obj)
                if l['n'] == 'tolerance_':
                    if 'max' in calls and any(m['n'] in ('epsilon_', 'tolerance_') for m in mems):
                        form = 'max with epsilon_/tolerance_'
                    elif 'max' in calls and any(x.get('k') == 'var' and x['n'] in eps_vals for x in T.walk(rhs)):
                        form = 'max with the value assigned to %s.epsilon_' % obj
                    elif T.strip(rhs).get('k') == 'mem' and T.strip(rhs)['n'] == 'tolerance_':
                        form = 'copy of another Impl\'s tolerance_'
                    else:
                        # guarded by `x > obj.tolerance_`, restore of a saved value, or followed by SetEpsilon
                        g = g or C.Cfg(f)
                        dom = g.dominators().get(b['id'], set())
                        rv = T.strip(rhs)
                        guarded = False
                        saved_names = set()
                        for b2 in f['blocks']:
                            for e2 in b2['ev']:
                                if e2.get('k') == 'decl':
                                    for v in e2['vars']:
                                        if v.get('init') is not None and T.strip(v['init']).get('k') == 'mem' and \
                                                T.strip(v['init'])['n'] == 'tolerance_':
                                            saved_names.add(v['n'])
                        for d in dom:
                            cond, _ = C.branch_cond(g.blocks[d])
                            if cond is not None and rv.get('k') == 'var':
                                c = T.strip(cond)
                                if c.get('k') == 'bin' and c['op'] in ('>', '>=') and T.pstr(c['l']) == rv['n'] and \
                                        ('tolerance_' in T.pstr(c['r']) or T.pstr(c['r']) in saved_names) and \
                                        _on_true_edge(g, d, b['id']):
                                    guarded = True
                        saved = False
                        if rv.get('k') == 'var':
                            for b2 in f['blocks']:
                                for e2 in b2['ev']:
                                    if e2.get('k') == 'decl':
                                        for v in e2['vars']:
                                            if v['n'] == rv['n'] and v.get('init') is not None and \
                                                    'tolerance_' in T.pstr(v['init']) and \
                                                    T.strip(v['init']).get('k') == 'mem':
                                                saved = True
                        followed = _followed_by(g, b, idx, obj, ('SetEpsilon', 'MakeEmpty'))
                        if guarded:
                            form = 'guarded by %s > tolerance_' % rv.get('n')
                        elif saved:
                            form = 'restore of the value saved from tolerance_'
                        elif followed:
                            form = 'raw value, SetEpsilon() follows on all paths'
                else:
                    if 'max' in calls or 'MaxEpsilon' in calls:
                        form = 'max(...)'
                    elif T.strip(rhs).get('k') == 'mem' and T.strip(rhs)['n'] == 'epsilon_':
                        form = 'copy of another Impl\'s epsilon_'
                    else:
                        g = g or C.Cfg(f)
                        rv = T.strip(rhs)
                        if _followed_by(g, b, idx, obj, ('SetEpsilon', 'MakeEmpty')):
                            form = 'SetEpsilon() follows on all paths'
                        elif rv.get('k') == 'var' and _tolerance_floor_follows(g, b, idx, obj, rv['n']):
                            form = 'tolerance_ = max(.., %s) follows on all paths' % rv['n']
                        elif ev.get('op') == '*=':
                            if _followed_by(g, b, idx, obj, ('SetEpsilon',)):
                                form = 'scaled, SetEpsilon() follows'
                if form is None:
                    key = (T.basename(f['name']), '%s %s %s' % (l['n'], ev['op'], s[:60]))
                    if key in reviewed:
                        form = 'reviewed: ' + reviewed[key]
                chk.obligation(form is not None, {'function': f['name'], 'line': ev.get('ln'),
                                                  'write': '%s.%s %s %s' % (obj, l['n'], ev['op'], s[:60]),
                                                  'form': form or 'UNORDERED'})
                if form is None:
                    chk.violation('C19.2', f, '%s %s %s' % (l['n'], ev['op'], s[:60]),
                                  'write to %s that is neither a max/copy/guarded/restored form nor followed by '
                                  'SetEpsilon(): GetTolerance() >= GetEpsilon() is no longer inductive' % l['n'],
                                  line=ev.get('ln'), cfg=cfgname)
    chk.count('c19.2.writes', n)


def _on_true_edge(g, d, target):
    """target is reachable from the true successor of branch block d but not from its false successor"""
    ss = g.blocks[d]['succ']
    if len(ss) != 2:
        return False

    def reach(src):
        seen = set()
        st = [src]
        while st:
            x = st.pop()
            if x is None or x < 0 or x in seen or x == d:
                continue
            if x == target:
                return True
            seen.add(x)
            st.extend(g.real_succ(x))
        return False
    return reach(ss[0]) and not reach(ss[1])


def _eps_assigned(f, obj):
    out = set()
    for b in f['blocks']:
        for ev in b['ev']:
            if ev.get('k') == 'bin' and ev.get('op') == '=':
                l = T.strip(ev['l'])
                if l.get('k') == 'mem' and l['n'] == 'epsilon_' and T.pstr(l['base']) == obj and \
                        T.strip(ev['r']).get('k') == 'var':
                    out.add(T.strip(ev['r'])['n'])
    return out


def _tolerance_floor_follows(g, blk, idx, obj, var):
    def hit(ev):
        if ev.get('k') != 'bin' or ev.get('op') != '=':
            return False
        l = T.strip(ev['l'])
        if not (l.get('k') == 'mem' and l['n'] == 'tolerance_' and T.pstr(l['base']) == obj):
            return False
        return any(T.short(c.get('fn', '')) == 'max' for c in T.calls(ev['r'])) and \
            any(x.get('k') == 'var' and x['n'] == var for x in T.walk(ev['r']))
    if any(hit(e) for e in blk['ev'][idx + 1:]):
        return True
    seen = {}

    def walk(b):
        if b in seen:
            return seen[b]
        seen[b] = True
        if any(hit(e) for e in g.blocks[b]['ev']):
            return True
        ss = g.real_succ(b)
        if b == g.exit or not ss:
            seen[b] = False
            return False
        r = all(walk(s) for s in ss)
        seen[b] = r
        return r
    ss = g.real_succ(blk['id'])
    return bool(ss) and all(walk(s) for s in ss)


def _followed_by(g, blk, idx, obj, names):
    """on every path from just after event idx of blk to the exit there is a call obj.<name>()"""
    def hit(ev):
        return ev.get('k') == 'call' and T.short(ev.get('fn', '')) in names and ev.get('recv') is not None and \
            T.pstr(ev['recv']) == obj
    if any(hit(e) for e in blk['ev'][idx + 1:]):
        return True
    sub = C.Cfg(g.fn)
    # must-dataflow from the successors
    res = True
    seen = {}

    def walk(b):
        if b in seen:
            return seen[b]
        seen[b] = True      # optimistic for cycles
        if any(hit(e) for e in g.blocks[b]['ev']):
            seen[b] = True
            return True
        ss = g.real_succ(b)
        if b == g.exit or not ss:
            seen[b] = False
            return False
        r = all(walk(s) for s in ss)
        seen[b] = r
        return r
    ss = g.real_succ(blk['id'])
    return bool(ss) and all(walk(s) for s in ss)


def rule_cache_key(chk, db, cfgname):
    chk.rule('C19.3', 'the process-wide subdivision-pattern cache is keyed by the complete division tuple: every find / '
             'insert / operator[] on Partition::cache uses the parameter of GetCachedPartition itself as the key (a '
             'derived, possibly lossy key lets two different tuples share one cached pattern, and what Refine returns '
             'then depends on what was refined before)')
    n = 0
    for f in db.functions.values():
        if not f.get('blocks') or T.short(f['name']) != 'GetCachedPartition':
            continue
        params = {p['n'] for p in f['params']}
        for b in f['blocks']:
            for e in b['ev']:
                if e.get('k') != 'call' or e.get('recv') is None:
                    continue
                r = T.strip_copy(e['recv'])
                if not (r.get('k') == 'var' and r.get('n', '').endswith('Partition::cache')):
                    continue
                m = T.short(e.get('fn', ''))
                keys = []
                if m in ('find', 'count', 'at', 'erase') or e.get('op') == '[]':
                    keys = e.get('args', [])[:1]
                elif m in ('insert', 'emplace', 'try_emplace', 'insert_or_assign'):
                    a0 = T.strip_copy(e['args'][0]) if e.get('args') else {}
                    # insert({key, value}) / emplace(key, value)
                    inner = a0.get('args') if a0.get('k') in ('ilist', 'ctor') and a0.get('args') else e.get('args', [])
                    keys = inner[:1]
                for kx in keys:
                    n += 1
                    k0 = T.strip_copy(kx)
                    while k0.get('k') in ('ctor', 'ilist') and len(k0.get('args', [])) == 1:
                        k0 = T.strip_copy(k0['args'][0])
                    ok = k0.get('k') == 'var' and k0.get('n') in params
                    chk.obligation(ok, {'function': f['name'][:60], 'line': e.get('ln'), 'cache operation': m or '[]',
                                        'key': T.pstr(k0)[:40], 'is the parameter itself': ok})
                    if not ok:
                        chk.violation('C19.3', f, 'cache keyed by %s' % T.pstr(k0)[:30],
                                      'Partition::cache is accessed with the key %s instead of the division tuple '
                                      'itself: if the mapping is not injective, different tuples share one cached '
                                      'subdivision pattern' % T.pstr(k0)[:40], line=e.get('ln'), cfg=cfgname)
    if n == 0:
        raise AnalysisBroken('C19.3: no access to Partition::cache found in GetCachedPartition')
    chk.count('c19.3.cache_accesses', n)


def main(chk, tier):
    import db as D
    configs = ['seq', 'par'] if tier == 'quick' else ['seq', 'par', 'seq-debug', 'par-debug']
    tab = escape.load_table()
    chk.rule('C19.1', 'the Refine path of the escape typestate: Subdivide -> CreateHalfedges may strand vertices, so '
             'RemoveUnreferencedVerts and SortGeometry lie on every path before Manifold::Refine/RefineToLength/'
             'RefineToTolerance wrap the result (every vertex referenced)')
    for cfgname in configs:
        db = D.load(cfgname)
        chk.configs.append(cfgname)
        chk.units = len(db.units)
        chk.functions_analysed += len(db.functions)
        e = escape.Escape(db, tab, 'TSR')
        res, reqv = e.run()
        res = [r for r in res if 'Refine' in r[0]['name']]
        if len(res) < 3:
            raise AnalysisBroken('C19.1: Refine escape points not found')
        escape.report(chk, e, res, reqv, 'C19.1', cfgname, 'TS')
        rule_tolerance(chk, db, cfgname, tab)
        rule_cache_key(chk, db, cfgname)
    n = len(configs)
    chk.floor('c19.1.escape_points', 3 * n)
    chk.floor('c19.2.writes', 14 * n)
    return chk.finish(
        'Refine instance of the Impl escape typestate (stranded vertices removed, tombstones compacted before the '
        'refined Impl is wrapped) and an order-preservation lint over every write to Impl::tolerance_/epsilon_, which '
        'makes GetTolerance() >= GetEpsilon() inductive over all reachable objects. Does not decide partition tiling, '
        'surface interpolation or collapse cost.',
        assumptions=['SetEpsilon() re-establishes tolerance_ >= epsilon_ (tolerance_ = max(tolerance_, minTol))'])
