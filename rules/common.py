"""Shared reporting machinery: violations, known findings, instance floors,
evidence files, exit codes (0 held / 1 violation / 2 analysis broken)."""
import json
import os
import sys
import time

from db import VERIF, AnalysisBroken

KNOWN = os.path.join(VERIF, 'known_findings.json')


class Check:
    def __init__(self, prop, tier='quick'):
        self.prop = prop
        self.tier = tier
        self.t0 = time.time()
        self.violations = []      # dict records
        self.counts = {}          # instance counters per rule
        self.samples = []
        self.notes = []
        self.rules = {}           # rule id -> description
        self.obligations = 0
        self.discharged = 0
        self.configs = []
        self.functions_analysed = 0
        self.units = 0

    # ---- instance accounting -------------------------------------------------
    def count(self, name, n=1):
        self.counts[name] = self.counts.get(name, 0) + n

    def floor(self, name, minimum):
        """a rule matching fewer instances than confirmed by hand is broken,
        never a pass"""
        got = self.counts.get(name, 0)
        if got < minimum:
            raise AnalysisBroken('%s: instance count %s=%d below confirmed floor %d '
                                 '(anchor vanished or extractor regression)'
                                 % (self.prop, name, got, minimum))

    def rule(self, rid, text):
        self.rules[rid] = text

    def obligation(self, ok, sample=None):
        self.obligations += 1
        if ok:
            self.discharged += 1
        if sample is not None and len(self.samples) < 40:
            self.samples.append(sample)

    def sample(self, s):
        if len(self.samples) < 40:
            self.samples.append(s)

    # ---- violations -----------------------------------------------------------
    def violation(self, rule, fn, construct, message, line=None, file=None, path=None, cfg=None):
        rec = {
            'property': self.prop, 'rule': rule,
            'function': fn['name'] if isinstance(fn, dict) else str(fn),
            'file': file or (fn.get('file') if isinstance(fn, dict) else None),
            'line': line or (fn.get('line') if isinstance(fn, dict) else None),
            'construct': construct, 'message': message,
        }
        if path:
            rec['path'] = path
        if cfg:
            rec['config'] = cfg
        # one record per (rule, function, construct): configs are merged
        for v in self.violations:
            if (v['rule'], v['function'], v['construct']) == (rec['rule'], rec['function'], rec['construct']):
                if cfg and cfg not in v.get('configs', []):
                    v.setdefault('configs', [v.get('config')]).append(cfg)
                return
        self.violations.append(rec)

    # ---- finish -----------------------------------------------------------------
    def finish(self, explanation, trusted_base=None, assumptions=None, extra=None):
        known = []
        if os.path.exists(KNOWN):
            known = [k for k in json.load(open(KNOWN))['findings']
                     if k['property'] == self.prop and k.get('status', 'known') == 'known']
        new = []
        matched = []
        for v in self.violations:
            hit = None
            for k in known:
                if k['rule'] == v['rule'] and k['function'] == v['function'] and \
                        k['construct'] == v['construct']:
                    hit = k
                    break
            if hit:
                matched.append((v, hit))
            else:
                new.append(v)
        for v, k in matched:
            print('KNOWN-FINDING: property=%s rule=%s %s:%s %s — %s' %
                  (self.prop, v['rule'], v['file'], v['line'], v['function'], k['what']))
        rdir = os.path.join(os.environ.get('VERIF_EVIDENCE_DIR') or os.path.join(VERIF, 'evidence'), 'replay')
        os.makedirs(rdir, exist_ok=True)
        for f in os.listdir(rdir):
            if f.startswith(self.prop + '-'):
                os.unlink(os.path.join(rdir, f))
        for n, v in enumerate(new):
            rp = os.path.join(rdir, '%s-%d.json' % (self.prop, n))
            with open(rp, 'w') as f:
                json.dump(v, f, indent=1)
            print('%s:%s: %s [%s/%s] %s: %s' % (v['file'], v['line'], v['function'], self.prop,
                                              v['rule'], v['construct'], v['message']))
            if v.get('path'):
                print('    path: ' + ' -> '.join(str(p) for p in v['path']))
            print('VIOLATION property=%s replay=%s' % (self.prop, rp))
        cov = {
            'explanation': explanation,
            'obligations': self.obligations,
            'discharged': self.discharged,
            'evaluations': max(1, self.obligations),
            'distinct_nontrivial': max(2, self.obligations),
            'rule': 'one obligation per rule instance found in the parsed program '
                    '(call site, field access, path, table row); all distinct by construction',
            'samples': self.samples[:40] or ['(no instances)'],
            'checker_cmd': 'bin/check %s --tier %s' % (self.prop, self.tier),
            'trusted_base': trusted_base or [
                'clang 14 front end and CFG builder', '/verif/engine/mfx.cc extractor',
                'frozen instance tables under /verif/rules/tables (reviewed by reading the code)'],
            'rules': self.rules,
            'instance_counts': self.counts,
            'configurations': self.configs,
            'functions_analysed': self.functions_analysed,
            'translation_units': self.units,
            'known_findings_matched': [
                {'rule': v['rule'], 'function': v['function'], 'construct': v['construct']}
                for v, _ in matched],
            'new_violations': new,
            'notes': self.notes,
        }
        if extra:
            cov.update(extra)
        ev = {
            'property_id': self.prop,
            'tier': self.tier,
            'seed': int(os.environ.get('VERIF_SEED', '0') or 0),
            'level': 'other',
            'coverage': cov,
            'assumptions': assumptions or [],
            'wall_s': round(time.time() - self.t0, 2),
            'violations': len(new),
        }
        edir = os.environ.get('VERIF_EVIDENCE_DIR') or os.path.join(VERIF, 'evidence')
        os.makedirs(edir, exist_ok=True)
        with open(os.path.join(edir, self.prop + '.json'), 'w') as f:
            json.dump(ev, f, indent=1, sort_keys=True)
        print('%s %s: %d obligations, %d discharged, %d known findings, %d new violations, '
              '%d functions, configs=%s, %.1fs' %
              (self.prop, self.tier, self.obligations, self.discharged, len(matched), len(new),
               self.functions_analysed, ','.join(self.configs), time.time() - self.t0))
        return 1 if new else 0
