"""C10 — Triangulate: reuse-independence clause.

Decides the part of C10 whose truth is in the shape of the code: the result of a triangulation cannot depend on
what the (reused, per-worker) triangulator object did before, because
  C10.1  Reset() puts every data member of EarClip (and of its nested scratch structs) back to its initial state,
         or the member is scratch that every reader re-initialises first;
  C10.2  Reset() dominates every other access to the object's state in EarClip::Triangulate;
  C10.3  polygon.cpp / tree2d.cpp keep no mutable namespace-scope, function-local static or thread_local state;
  C10.4  (TBB build) every TBB parallel construct reachable while a triangulation is in progress runs inside
         this_task_arena::isolate, so the worker cannot steal another face's task and re-enter its own
         thread-local triangulator mid-use;
  C10.5  the triangulator handed to TriangulateIdxHalfedges is obtained from PolygonTriangulatorStore::local()
         in the function that uses it (not hoisted out of the task), and the store is per-thread in TBB builds.
  C10.6  degenerate contours: unsigned size arithmetic and begin() dereferences are size-guarded;
  C10.7  the convexity test that gates the allowConvex fast path turn-tests as many corners as the contour has
         vertices (its corner loop is extracted and evaluated for every contour size 3..200).
Triangle count, orientation, area, edge pairing, the turn test's own arithmetic and termination are decided by
coordinates and are not decided here."""
import tree as T
import cfg as C
from db import AnalysisBroken

FILES = ('src/polygon.cpp', 'src/tree2d.cpp', 'src/tree2d.h', 'src/polygon_internal.h')
RESET_METHODS = {'clear', 'reset', 'assign', 'resize', 'swap'}
# mutable statics that exist only in MANIFOLD_DEBUG builds and only steer diagnostics; the rule still verifies that no
# other function of the triangulator sources reads or writes them
REVIEWED_STATICS = {
    '(anonymous namespace)::numFailures': {
        'only_used_by': ['(anonymous namespace)::PrintFailure'],
        'reason': 'MANIFOLD_DEBUG only: lets the first failing triangulation print its input to stdout'},
}


def field_path(n):
    """('field', 'sub', ...) of a member chain rooted at this, else None"""
    n = T.strip(n)
    path = []
    while n.get('k') == 'mem':
        path.append(n['n'])
        n = T.strip(n['base'])
    if n.get('k') == 'this':
        return tuple(reversed(path))
    return None


_RES = {}


def resets_in(fn, db=None, depth=0):
    k = (fn['key'], id(db), depth if db is not None else 0)
    if k not in _RES:
        _RES[k] = _resets_in(fn, db, depth)
    return _RES[k]


def _resets_in(fn, db=None, depth=0):
    """field paths a function puts back to a fresh state: x.clear(), x = ..., this->M() with M resetting on all
    paths; (block id, index, path, line)"""
    out = []
    for b in fn.get('blocks', []):
        for e in b['ev']:
            p = None
            if e.get('k') == 'call' and e.get('recv') is not None:
                m = T.short(e.get('fn', ''))
                if m in RESET_METHODS or e.get('op') == '=':
                    p = field_path(e['recv'])
                elif db is not None and depth < 3 and T.strip(e['recv']).get('k') == 'this' and \
                        e.get('fk') in db.functions:
                    for q in must_resets(db, db.functions[e['fk']], depth + 1):
                        out.append((b['id'], e.get('i', 0), q, e.get('ln')))
            elif e.get('k') == 'bin' and e.get('op') == '=':
                p = field_path(e['l'])
            if p:
                out.append((b['id'], e.get('i', 0), p, e.get('ln')))
    return out


_MEMO = {}


def must_resets(db, fn, depth=0):
    """paths reset on every path through fn (resets in blocks dominating the exit), following this->M() calls"""
    k = (id(db), fn['key'])
    if k not in _MEMO:
        _MEMO[k] = _must_resets(db, fn, depth)
    return _MEMO[k]


def _must_resets(db, fn, depth=0):
    g = C.Cfg(fn)
    if not g.ok():
        return set()
    dom = g.dominators()
    must = dom.get(g.exit, set())
    return {p for b, _, p, _ in resets_in(fn, db, depth) if b in must}


_LIFT = {}


def lifted_accesses(db, m):
    k = (id(db), m['key'])
    if k not in _LIFT:
        _LIFT[k] = _lifted_accesses(db, m)
    return _LIFT[k]


def _lifted_accesses(db, m):
    """accesses of m plus those of lambdas defined in m, the latter placed at the lambda expression"""
    out = list(accesses_in(m))
    for b in m.get('blocks', []):
        for e in b['ev']:
            for x in T.walk(e):
                if isinstance(x, dict) and x.get('k') == 'lambda' and x.get('fk') and x['fk'] in db.functions:
                    for (_, _, p, ln) in lifted_accesses(db, db.functions[x['fk']]):
                        out.append((b['id'], e.get('i', 0), p, ln))
    return out


def accesses_in(fn):
    """(block, index, path, line) of every this->field access"""
    out = []
    seen = set()
    inner = set()     # member nodes that are only the base of a longer chain
    for b in fn.get('blocks', []):
        for e in b['ev']:
            for x in T.walk(e):
                if isinstance(x, dict) and x.get('k') == 'mem' and T.strip(x['base']).get('k') == 'mem':
                    inner.add((b['id'], T.strip(x['base']).get('i')))
    for b in fn.get('blocks', []):
        for e in b['ev']:
            for x in T.walk(e):
                if isinstance(x, dict) and x.get('k') == 'mem' and (b['id'], x.get('i')) not in inner:
                    p = field_path(x)
                    if p and (b['id'], x.get('i'), p) not in seen:
                        seen.add((b['id'], x.get('i'), p))
                        out.append((b['id'], x.get('i', 0), p, x.get('ln')))
    return out


def rule_reset(chk, db, cfgname):
    chk.rule('C10.1', 'every non-static data member of EarClip is re-initialised by Reset() (clear/assignment, nested '
             'scratch structs member-wise), or is scratch that each reading method clears before use')
    chk.rule('C10.2', 'in EarClip::Triangulate the call of Reset() dominates every other access to the object')
    classes = [c for c in db.classes.values() if T.short(c['name'].split('<')[0]) == 'EarClip' and
               c['name'].count('::') == c['name'].split('<')[0].count('::') and c.get('fields')]
    classes = [c for c in classes if '>::' not in c['name']]
    if not classes:
        raise AnalysisBroken('C10: class EarClip not found')
    for c in classes:
        base = c['name'].split('<')[0]
        methods = [f for f in db.functions.values() if f.get('cls') == base and f.get('blocks') and
                   f['name'].startswith(c['name'] + '::')]
        reset = [f for f in methods if T.short(f['name']) == 'Reset']
        tri = [f for f in methods if T.short(f['name']) == 'Triangulate']
        if len(tri) != 1:
            raise AnalysisBroken('C10: Triangulate of %s not found uniquely' % c['name'])
        if len(reset) != 1:
            # a member template that is never called is not instantiated
            chk.count('c10.2.triangulate_bodies')
            chk.count('c10.1.members', len(c['fields']) + 1)
            chk.obligation(False, {'function': tri[0]['name'], 'Reset': 'NOT CALLED (not instantiated)'})
            chk.violation('C10.2', tri[0], 'Reset not called', 'no Reset() of %s is instantiated: Triangulate does '
                          'not reset the reused triangulator' % c['name'], cfg=cfgname)
            continue
        reset, tri = reset[0], tri[0]
        rs = {p for _, _, p, _ in resets_in(reset)}
        slots = []
        for f in c['fields']:
            trec = field_type_record(db, c, f)
            nc = [k for k in db.classes.values() if k['name'] == trec and k['name'].startswith(c['name'] + '::')]
            if nc and nc[0].get('fields'):
                slots += [(f['n'], g['n']) for g in nc[0]['fields']]
            else:
                slots.append((f['n'],))
        for slot in slots:
            name = '.'.join(slot)
            chk.count('c10.1.members')
            ok = any(slot[:k] in rs for k in range(1, len(slot) + 1))
            how = 'reset by Reset()'
            if not ok:
                # scratch: every reading method re-initialises before use
                readers = []
                bad = []
                for m in methods:
                    if m is reset:
                        continue
                    acc = [a for a in lifted_accesses(db, m) if a[2][:len(slot)] == slot or slot[:len(a[2])] == a[2]]
                    if not acc:
                        continue
                    readers.append(m['name'])
                    g = C.Cfg(m)
                    dom = g.dominators()
                    inits = [r for r in resets_in(m, db) if slot[:len(r[2])] == r[2]]
                    for (ab, ai, ap, aln) in acc:
                        if any(rb == ab and abs(ri - ai) <= 2 and ap == rp
                               for rb, ri, rp, _ in inits):
                            continue    # the re-initialising access itself
                        if not any((rb in dom.get(ab, ()) and rb != ab) or (rb == ab and ri < ai)
                                   for rb, ri, _, _ in inits):
                            bad.append((T.short(m['name']), aln))
                if readers and not bad:
                    ok = True
                    how = 'scratch: re-initialised before use in ' + ', '.join(sorted({T.short(r) for r in readers}))
                elif not readers:
                    ok = True
                    how = 'never accessed outside Reset()'
                else:
                    how = 'NOT reset; used at %s' % bad[:3]
            chk.obligation(ok, {'class': c['name'], 'member': name, 'status': how})
            if not ok:
                chk.violation('C10.1', reset, 'member %s not reset' % name,
                              'EarClip::%s survives from one Triangulate call to the next: the reused per-worker '
                              'triangulator can return a different triangulation than a fresh one (%s)' % (name, how),
                              cfg=cfgname)
        # C10.2 dominance of Reset in Triangulate
        g = C.Cfg(tri)
        dom = g.dominators()
        rcall = None
        for b in tri['blocks']:
            for e in b['ev']:
                if e.get('k') == 'call' and T.short(e.get('fn', '')) == 'Reset' and \
                        T.strip(e.get('recv') or {}).get('k') == 'this':
                    rcall = (b['id'], e.get('i', 0), e.get('ln'))
                    break
            if rcall:
                break
        chk.count('c10.2.triangulate_bodies')
        if rcall is None:
            chk.obligation(False, {'function': tri['name'], 'Reset': 'NOT CALLED'})
            chk.violation('C10.2', tri, 'Reset not called', 'Triangulate does not reset the reused triangulator',
                          cfg=cfgname)
            continue
        early = []
        # receivers of capacity-only calls (reserve/capacity) are not state accesses
        capacity_only = set()
        for b in tri['blocks']:
            for e in b['ev']:
                if e.get('k') == 'call' and T.short(e.get('fn', '')) in ('reserve', 'capacity') and \
                        e.get('recv') is not None:
                    capacity_only.add((b['id'], T.strip(e['recv']).get('i')))
        for b in tri['blocks']:
            if b['id'] not in g.reachable():
                continue
            for e in b['ev']:
                touches = False
                ln = e.get('ln')
                if e.get('k') == 'call' and T.strip(e.get('recv') or {}).get('k') == 'this' and \
                        T.short(e.get('fn', '')) != 'Reset':
                    touches = True
                elif e.get('k') == 'mem' and field_path(e):
                    touches = (b['id'], e.get('i')) not in capacity_only
                if not touches:
                    continue
                if b['id'] == rcall[0]:
                    if e.get('i', 0) < rcall[1]:
                        early.append(ln)
                elif rcall[0] not in dom.get(b['id'], ()):
                    early.append(ln)
        ok = not early
        chk.obligation(ok, {'function': tri['name'], 'Reset at line': rcall[2],
                            'state accesses not dominated by Reset': early[:5]})
        if not ok:
            chk.violation('C10.2', tri, 'state accessed before Reset',
                          'EarClip::Triangulate touches the object at line(s) %s before (or on a path around) '
                          'Reset(): state left by the previous call is used' % early[:5], line=early[0],
                          cfg=cfgname)


def field_type_record(db, c, f):
    try:
        t = db.types[c['tu']][f['t']]
    except Exception:
        try:
            t = db.T({'tu': c['tu']}, f['t'])
        except Exception:
            return None
    return t.get('r')


def rule_statics(chk, db, cfgname):
    chk.rule('C10.3', 'the triangulator sources define no mutable namespace-scope, static-local or thread_local '
             'variable: no state outside the triangulator object survives a call')
    vs = db.vars.values() if isinstance(db.vars, dict) else db.vars
    n = 0
    for v in vs:
        if v.get('file') not in FILES:
            continue
        n += 1
        ok = bool(v.get('const') or v.get('constexpr'))
        kind = 'const' if ok else 'MUTABLE static storage'
        rv = REVIEWED_STATICS.get(v['name'])
        if not ok and rv:
            # reviewed diagnostic-only state: still checked - nothing but the listed diagnostic functions may touch it
            short = v['name'].split('::')[-1]
            users = {T.basename(f['name'].split('::<lambda@')[0]) for f in db.functions.values()
                     if f.get('blocks') and f['file'] in FILES and any(
                         isinstance(y, dict) and y.get('k') == 'var' and y.get('n') in (short, v['name']) and y.get('s') not in ('l', 'p')
                         for b in f['blocks'] for e in b['ev'] for y in T.walk(e))}
            if users and users <= set(rv['only_used_by']):
                ok = True
                kind = 'reviewed diagnostic-only state (%s); used only by %s' % (rv['reason'], sorted(users))
        chk.obligation(ok, {'variable': v['name'], 'file': v['file'], 'line': v['line'], 'kind': kind})
        if not ok:
            chk.violation('C10.3', {'name': v['name'], 'file': v['file'], 'line': v['line']},
                          'mutable static %s' % v['name'],
                          'a variable with static or thread storage duration in the triangulator survives between '
                          'calls (and is shared between workers): the result can depend on earlier triangulations',
                          line=v['line'], cfg=cfgname)
    chk.count('c10.3.static_variables', n)


def rule_isolate(chk, db, cfgname):
    chk.rule('C10.4', 'TBB build: every tbb::parallel_* / task_group::run reachable from EarClip::Triangulate is '
             'inside tbb::this_task_arena::isolate (no outer task can be stolen into a worker whose thread-local '
             'triangulator is mid-use)')
    roots = [f for f in db.functions.values() if T.short(f['name']) == 'Triangulate' and
             'EarClip' in f['name'] and f.get('blocks')]
    if not roots:
        raise AnalysisBroken('C10.4: EarClip::Triangulate not found')
    seen = set()
    work = [(r['key'], False, (T.short(r['name']),)) for r in roots]
    sites = 0
    while work:
        key, iso, path = work.pop()
        if (key, iso) in seen:
            continue
        seen.add((key, iso))
        fn = db.functions.get(key)
        if not fn or not fn.get('blocks'):
            continue
        for b in fn['blocks']:
            for e in b['ev']:
                if e.get('k') != 'call':
                    continue
                name = e.get('fn', '')
                is_iso = name.startswith('tbb::') and T.short(name) == 'isolate'
                if name.startswith('tbb::') and (T.short(name).startswith('parallel_') or
                                                 name.endswith('task_group::run')):
                    sites += 1
                    chk.obligation(iso, {'tbb construct': name.split('<')[0], 'in': fn['name'][:80],
                                         'line': e.get('ln'), 'isolated': iso, 'path': ' > '.join(path[-5:])})
                    if not iso:
                        chk.violation('C10.4', fn, '%s not isolated' % name.split('<')[0],
                                      'while this parallel region waits, the worker can steal another face\'s '
                                      'triangulation task and re-enter its own thread-local triangulator, whose '
                                      'Reset() wipes the triangulation in progress (path %s)' % ' > '.join(path[-5:]),
                                      line=e.get('ln'), cfg=cfgname)
                # lambdas passed as arguments
                for a in e.get('args', []):
                    for x in T.walk(a):
                        if isinstance(x, dict) and x.get('k') == 'lambda' and x.get('fk'):
                            work.append((x['fk'], iso or is_iso, path + ('<lambda>',)))
                if e.get('fk'):
                    work.append((e['fk'], iso, path + (T.short(name),)))
            # lambdas declared then passed by name
            for e in b['ev']:
                if e.get('k') == 'decl':
                    for v in e['vars']:
                        for x in T.walk(v.get('init') or {}):
                            if isinstance(x, dict) and x.get('k') == 'lambda' and x.get('fk'):
                                work.append((x['fk'], iso, path + ('<lambda>',)))
    chk.count('c10.4.tbb_sites', sites)
    chk.count('c10.4.functions_reached', len({k for k, _ in seen}))


def rule_store(chk, db, cfgname):
    chk.rule('C10.5', 'a PolygonTriangulator handed to TriangulateIdxHalfedges comes from '
             'PolygonTriangulatorStore::local() evaluated in the function that uses it; in TBB builds the store is '
             'per-thread (tbb::combinable / enumerable_thread_specific)')
    n = 0
    for f in db.functions.values():
        if not f.get('blocks') or f['name'].startswith('manifold::TriangulateIdxHalfedges'):
            continue
        for b in f['blocks']:
            for e in b['ev']:
                if e.get('k') == 'call' and T.short(e.get('fn', '')) == 'TriangulateIdxHalfedges' and \
                        len(e.get('args', [])) == 4:
                    n += 1
                    a = T.strip_copy(e['args'][3])
                    ok = a.get('k') == 'call' and T.short(a.get('fn', '')) == 'local' and \
                        'PolygonTriangulatorStore' in a.get('fn', '')
                    src = T.pstr(a)
                    if not ok and a.get('k') == 'var' and a.get('s') == 'l':
                        # reference local initialised by .local() in this very function
                        for bb in f['blocks']:
                            for ee in bb['ev']:
                                if ee.get('k') == 'decl':
                                    for v in ee['vars']:
                                        i = T.strip_copy(v.get('init') or {})
                                        if v['n'] == a['n'] and i.get('k') == 'call' and \
                                                T.short(i.get('fn', '')) == 'local':
                                            ok = True
                    if not ok and a.get('k') == 'var' and a.get('s') == 'p':
                        ok = True   # caller-supplied triangulator: the obligation moves to the caller's call site
                        src += ' (parameter)'
                    chk.obligation(ok, {'function': f['name'][:80], 'line': e.get('ln'), 'triangulator': src})
                    if not ok:
                        chk.violation('C10.5', f, 'triangulator %s not from local()' % src,
                                      'the triangulator is not fetched from the per-worker store at the point of '
                                      'use: concurrent tasks share one triangulator object', line=e.get('ln'),
                                      cfg=cfgname)
    chk.count('c10.5.triangulator_uses', n)
    if cfgname.startswith('par'):
        cs = [c for c in db.classes.values() if c['name'] == 'manifold::PolygonTriangulatorStore']
        if not cs:
            raise AnalysisBroken('C10.5: PolygonTriangulatorStore not found')
        for fld in cs[0]['fields']:
            r = field_type_record(db, cs[0], fld) or ''
            ok = r in ('tbb::detail::d1::combinable', 'tbb::combinable', 'tbb::detail::d1::enumerable_thread_specific',
                       'tbb::enumerable_thread_specific')
            chk.count('c10.5.store_fields')
            chk.obligation(ok, {'PolygonTriangulatorStore::' + fld['n']: r})
            if not ok:
                chk.violation('C10.5', {'name': cs[0]['name'], 'file': cs[0]['file'], 'line': cs[0]['line']},
                              'store field %s is %s' % (fld['n'], r),
                              'in a TBB build the triangulator store is not per-thread: tasks on different '
                              'workers reuse one triangulator concurrently', cfg=cfgname)


def rule_degenerate(chk, db, cfgname):
    chk.rule('C10.6', 'termination and index validity for every finite input: in the triangulator an unsigned '
             '`c.size() - k` (k >= 1) and a dereference of `c.begin()` are dominated by a test of c\'s size / emptiness '
             '(a contour with fewer than three - or zero - vertices must not wrap a count around or be indexed)')
    n = 0
    for f in db.functions.values():
        if not f.get('blocks') or f['file'] not in ('src/polygon.cpp', 'src/polygon_internal.h'):
            continue
        g = None
        seen = set()
        begins = {}
        for b in f['blocks']:
            for e in b['ev']:
                if e.get('k') == 'decl':
                    for v in e['vars']:
                        i = T.strip_copy(v['init']) if v.get('init') is not None else None
                        if i is not None and i.get('k') == 'call' and T.short(i.get('fn', '')) in ('begin', 'cbegin') and \
                                i.get('recv') is not None:
                            begins[v['n']] = T.pstr(i['recv'])

        def guarded(bid, recv):
            nonlocal g
            g = g or C.Cfg(f)
            for d in g.dominators().get(bid, set()):
                c, _ = C.branch_cond(g.blocks[d])
                if c is not None and d != bid and (recv + '.size()' in T.pstr(c) or recv + '.empty()' in T.pstr(c)):
                    return True
            return False
        for b in f['blocks']:
            for e in b['ev']:
                for x in T.walk(e):
                    if not isinstance(x, dict):
                        continue
                    site = None
                    if x.get('k') == 'bin' and x.get('op') == '-':
                        l, r = T.strip_copy(x['l']), T.strip_copy(x['r'])
                        if l.get('k') == 'call' and T.short(l.get('fn', '')) == 'size' and l.get('recv') is not None and \
                                r.get('k') == 'int' and r.get('v', 0) >= 1:
                            site = (T.pstr(l['recv']), 'unsigned %s' % T.pstr(x)[:30])
                            # guarded by the very conditional expression it sits in
                    itv = None
                    if x.get('k') == 'mem':
                        bs = T.strip(x['base'])
                        if x.get('arrow') and bs.get('k') == 'var' and bs['n'] in begins:
                            itv = bs['n']
                        elif bs.get('k') == 'call' and bs.get('op') in ('->', '*') and bs.get('recv') is not None and \
                                T.strip(bs['recv']).get('k') == 'var' and T.strip(bs['recv'])['n'] in begins:
                            itv = T.strip(bs['recv'])['n']
                    if itv:
                        v = itv
                        # only the first element: the iterator has not been advanced/compared yet in this block chain
                        site = (begins[v], 'dereference of %s.begin()' % begins[v])
                    if not site:
                        continue
                    key = (x.get('ln'), site[1])
                    if key in seen:
                        continue
                    seen.add(key)
                    ok = guarded(b['id'], site[0])
                    if not ok and site[1].startswith('unsigned'):
                        # `c.size() < k ? 0 : c.size() - k`
                        for y in T.walk(e):
                            if isinstance(y, dict) and y.get('k') == 'cond' and site[0] + '.size()' in T.pstr(y.get('c') or {}):
                                ok = True
                    if not ok and site[1].startswith('dereference'):
                        # iterator compared with end() on a dominating branch
                        g = g or C.Cfg(f)
                        for d in g.dominators().get(b['id'], set()):
                            c, _ = C.branch_cond(g.blocks[d])
                            if c is not None and d != b['id'] and '.end()' in T.pstr(c) and itv and itv in T.pstr(c):
                                ok = True
                    n += 1
                    chk.obligation(ok, {'function': f['name'][:60], 'line': x.get('ln'), 'site': site[1],
                                        'dominated by a size test of': site[0] if ok else 'NOTHING'})
                    if not ok:
                        chk.violation('C10.6', f, '%s without a size test' % site[1],
                                      '%s at line %s is reached for a contour of any size: a contour with fewer than '
                                      'three (or zero) vertices wraps the unsigned count around or indexes past its end '
                                      '- Triangulate throws or crashes instead of terminating' % (site[1], x.get('ln')),
                                      line=x.get('ln'), cfg=cfgname)
    chk.count('c10.6.size_sensitive_sites', n)


def rule_corner_coverage(chk, db, cfgname):
    chk.rule('C10.7', 'the result does not depend on the allowConvex fast path: the convexity test that opens the fast '
             'path applies its turn test (determinant2x2 of consecutive edges) to as many corners as the contour has '
             'vertices - the trip count of its corner loop (start, continuation test, step taken from the source and '
             'evaluated for every contour size 3..200) times the turn tests per trip, plus the turn tests made once per '
             'contour, is at least the contour size; an untested corner lets a reflex contour take the convex path')
    from c16 import _ieval, _beval, _Undef
    fs = [f for f in db.functions.values() if f.get('blocks') and f['file'] == 'src/polygon.cpp' and
          T.basename(f['name']).split('::')[-1] == 'IsConvex' and '::Vert::' not in f['name'] and
          'EarClip' not in f['name']]
    if not fs:
        raise AnalysisBroken('C10.7: the contour convexity test IsConvex is no longer in src/polygon.cpp')
    n = 0
    for f in fs:
        g = C.Cfg(f)
        loops = g.loops()
        sites = []
        for b in f['blocks']:
            for e in b['ev']:
                if e.get('k') == 'call' and T.short(e.get('fn', '')) == 'determinant2x2':
                    sites.append((b['id'], e.get('ln')))
        sites = sorted(set(sites))
        if not sites:
            raise AnalysisBroken('C10.7: %s has no determinant2x2 turn test' % f['name'])
        nest = sorted(loops.items(), key=lambda kv: len(kv[1]))
        inner = next(((h, body) for h, body in nest if any(bid in body for bid, _ in sites)), None)
        if inner is None:
            raise AnalysisBroken('C10.7: the turn test of %s is not inside a loop' % f['name'])
        head, body = inner
        per_trip = len([s for s in sites if s[0] in body])
        outer = next(((h, bb) for h, bb in nest if len(bb) > len(body) and body <= bb), None)
        once = len([s for s in sites if s[0] not in body and (outer is None or s[0] in outer[1])])
        cond, _ = C.branch_cond(g.blocks[head])
        inits, steps = {}, []
        for bb in f['blocks']:
            for ee in bb['ev']:
                if ee.get('k') == 'decl':
                    for v in ee['vars']:
                        if isinstance(v.get('init'), dict) and v.get('d'):
                            inits[v['d']] = v['init']
                if bb['id'] in body:
                    if ee.get('k') == 'un' and ee.get('op') in ('++', '--') and T.strip(ee['e']).get('k') == 'var':
                        steps.append((T.strip(ee['e']), 1 if ee['op'] == '++' else -1))
                    elif ee.get('k') == 'bin' and ee.get('op') in ('+=', '-=') and T.strip(ee['l']).get('k') == 'var' \
                            and T.strip_copy(ee['r']).get('k') == 'int':
                        steps.append((T.strip(ee['l']), (1 if ee['op'] == '+=' else -1) * int(ee['r'].get('v', 0))))
        range_for = cond is not None and T.strip_copy(cond).get('k') == 'call' and \
            T.short(T.strip_copy(cond).get('fn', '')) == 'operator!=' and '__begin' in T.pstr(cond)
        cvars = {y['d'] for y in T.walk(cond) if isinstance(y, dict) and y.get('k') == 'var' and y.get('d')} \
            if cond is not None else set()
        steps = [s for s in steps if s[0].get('d') in cvars]
        bad = None
        symbols = set()
        if range_for:
            how = 'range-for over the contour: one trip per vertex'
            trips_of = lambda N: N
        elif cond is None or len(steps) != 1 or steps[0][0].get('d') not in inits:
            raise AnalysisBroken('C10.7: the corner loop of %s at line %s has no recognisable counter '
                                 '(start/continuation test/step)' % (f['name'], sites[0][1]))
        else:
            iv, step = steps[0]
            start = inits.pop(iv['d'])
            how = '%s = %s; while %s; step %+d' % (iv['n'], T.pstr(start)[:20], T.pstr(cond)[:40], step)

            def trips_of(N):
                def sym(text):
                    symbols.add(text)
                    return N
                env = {iv['d']: _ieval(start, {}, inits, sym)}
                it = 0
                while _beval(cond, env, inits, sym):
                    it += 1
                    if it > 5000:
                        return None
                    env[iv['d']] += step
                return it
        try:
            for N in range(3, 201):
                t = trips_of(N)
                if t is None:
                    bad = (N, 'the corner loop does not terminate')
                    break
                if t * per_trip + once < N:
                    bad = (N, 'only %d of its %d corners are tested (%d trips x %d + %d)' % (
                        t * per_trip + once, N, t, per_trip, once))
                    break
        except _Undef as u:
            raise AnalysisBroken('C10.7: the corner loop arithmetic of %s is outside the evaluated fragment (%s)'
                                 % (f['name'], u))
        if not range_for and len(symbols) != 1:
            raise AnalysisBroken('C10.7: the corner loop of %s depends on %d free quantities %s - the contour size '
                                 'cannot be identified' % (f['name'], len(symbols), sorted(symbols)[:4]))
        n += 1
        ok = bad is None
        chk.obligation(ok, {'function': f['name'][:60], 'turn tests': ['line %s' % s[1] for s in sites],
                            'corner loop': how, 'contour size': sorted(symbols)[0] if symbols else 'range of the loop',
                            'tests per trip': per_trip, 'tests once per contour': once, 'sizes evaluated': '3..200',
                            'counter-example': bad})
        if not ok:
            chk.violation('C10.7', f, 'corner loop leaves a corner of the contour untested',
                          'for a contour of %d vertices %s (loop: %s): a contour whose only reflex or degenerate corner '
                          'is the untested one is reported convex and triangulated by the fan path, so the result '
                          'depends on allowConvex' % (bad[0], bad[1], how), line=sites[0][1], cfg=cfgname)
    chk.count('c10.7.convexity_tests', n)


def main(chk, tier):
    import db as D
    configs = ['seq', 'par'] if tier == 'quick' else ['seq', 'par', 'seq-debug', 'par-debug']
    for cfgname in configs:
        db = D.load(cfgname)
        chk.configs.append(cfgname)
        chk.units = len(db.units)
        chk.functions_analysed += len(db.functions)
        rule_reset(chk, db, cfgname)
        rule_statics(chk, db, cfgname)
        rule_store(chk, db, cfgname)
        rule_degenerate(chk, db, cfgname)
        rule_corner_coverage(chk, db, cfgname)
        if cfgname.startswith('par'):
            rule_isolate(chk, db, cfgname)
    n = len(configs)
    chk.floor('c10.1.members', 12 * n)
    chk.floor('c10.2.triangulate_bodies', n)
    chk.floor('c10.6.size_sensitive_sites', 3 * n)
    chk.floor('c10.5.triangulator_uses', n)
    chk.floor('c10.7.convexity_tests', n)
    chk.floor('c10.4.tbb_sites', n // 2)
    return chk.finish(
        'Decides the reuse-independence clause of C10 for the per-worker EarClip triangulator: Reset completeness '
        'and dominance, absence of static state, isolation of nested TBB regions, and per-task acquisition of the '
        'thread-local triangulator; size guards for degenerate contours; and corner coverage of the convexity test '
        'that gates the allowConvex fast path. Triangle count, orientation, area, edge pairing, the turn test\'s '
        'own arithmetic and termination are coordinate dependent and not decided.',
        assumptions=['clear()/assignment restores the initial abstract state of a standard container (capacity is '
                     'not observable)', 'tbb::this_task_arena::isolate prevents stealing of outer tasks (TBB contract)'])
