"""C09 — malformed input gives an error Status, never undefined behaviour.

Rule 1a  value-tainted indices: a value loaded from a caller-supplied MeshGL array that reaches an index
         position must first be compared against an untainted bound on a dominating branch
Rule 1b  every MeshGL array the ingest copies from has a length validation on the way in
Rule 2   division/modulo by a field of the untrusted struct is dominated by a test of that field
Rule 3   float->int conversions of values derived from double parameters of public entry points are
         dominated by a finiteness/range guard or clamped
Rule 4   sticky Status: deriving methods test every operand's status and forward it
Rule 5   non-finite argument guards are present where the anchors name them
"""
import json
import os

import cfg as C
import tree as T
from db import AnalysisBroken, VERIF

MESHGL = 'manifold::MeshGLP'
REL = ('<', '<=', '>', '>=')


def load_table():
    return json.load(open(os.path.join(VERIF, 'rules', 'tables', 'c09.json')))


def family(db, root):
    out = [root]
    pre = root['key'] + '::<lambda@'
    for k, f in db.functions.items():
        if k.startswith(pre):
            out.append(f)
    return out


def is_subscript(x):
    return (x.get('k') == 'call' and x.get('op') == '[]' and x.get('recv') is not None) or x.get('k') == 'sub'


def sub_parts(x):
    if x.get('k') == 'sub':
        return x['base'], x['idx']
    return x['recv'], (x.get('args') or [None])[0]


# ------------------------------------------------------------------------------------------------
def rule1a(chk, db, cfgname, tab):
    chk.rule('C09.1a', 'a value read out of a caller-supplied MeshGL array (or computed from one) that is used as '
             'an index, or as the bound of an index variable, is compared against an untainted bound on a '
             'dominating branch before the access')
    roots = []
    for f in db.functions.values():
        if f.get('kind') == 'lambda' or not f.get('blocks'):
            continue
        for p in f['params']:
            if db.T(f, p['t']).get('r') == MESHGL:
                roots.append((f, p['n']))
    if len(roots) < 6:
        raise AnalysisBroken('C09.1a: MeshGL consumers not found (%d)' % len(roots))
    # other caller-supplied index carriers: the Smoothness list of Smooth()
    nsm = 0
    for f in db.functions.values():
        if f.get('kind') == 'lambda' or not f.get('blocks'):
            continue
        for p in f['params']:
            t = db.T(f, p['t'])
            if t.get('r') == 'std::vector' and t.get('ref') and t.get('const') and \
                    any('Smoothness' in a for a in (t.get('targs') or [])):
                if not any(r is f for r, _ in roots):
                    roots.append((f, p['n']))
                nsm += 1
    chk.count('c09.1a.smoothness_consumers', nsm)
    user_fields = {(u['class'], u['field']) for u in tab['user_index_fields']}
    nsink = 0
    # interprocedural sink summary: parameters that flow into an index with no relational test on them
    idx_params = index_params(db)
    for root, uname in roots:
        fam = family(db, root)
        # 1. untrusted containers: fields of U, plus local copies of them
        copies = set()
        for f in fam:
            for b in f['blocks']:
                for ev in b['ev']:
                    if ev.get('k') == 'decl':
                        for v in ev['vars']:
                            init = v.get('init')
                            if init is None:
                                continue
                            n = T.strip_copy(init)
                            if n.get('k') == 'mem' and rooted_at(n, uname) and not is_size_like(n):
                                copies.add(v['n'])

        def untrusted_container(c):
            c = T.strip(c)
            r = T.root_of(c)
            if r is None or r.get('k') != 'var':
                return False
            if r['n'] == uname and c.get('k') in ('mem', 'call'):
                return True
            return r['n'] in copies and c.get('k') == 'var'

        def tainted_read(x):
            if x.get('k') == 'mem' and (x.get('cls'), x.get('n')) in user_fields:
                return True
            if not is_subscript(x):
                return False
            base, _ = sub_parts(x)
            return untrusted_container(base)

        # 2. tainted variables with the arrays they originate from (flow-insensitive fixpoint)
        tainted = {}     # var -> set of origin container keys

        def read_key(x):
            if x.get('k') == 'mem':
                return x['cls'] + '::' + x['n']
            base, _ = sub_parts(x)
            return strip_idx(T.pstr(T.strip(base)))

        def expr_origins(e):
            o = set()
            for x in T.walk(e):
                if tainted_read(x):
                    o.add(read_key(x))
                elif x.get('k') == 'var' and x['n'] in tainted:
                    o |= tainted[x['n']]
            return o

        def expr_tainted(e):
            return bool(expr_origins(e))
        changed = True
        while changed:
            changed = False
            for f in fam:
                for b in f['blocks']:
                    for ev in b['ev']:
                        if ev.get('k') == 'decl':
                            for v in ev['vars']:
                                if v.get('init') is None or v['n'] in copies:
                                    continue
                                t = db.T(f, v['t'])
                                if not (t.get('k') in ('i', 'b', 'e', 'f') or t.get('ref')):
                                    continue
                                o = expr_origins(v['init'])
                                if o and not o <= tainted.get(v['n'], set()):
                                    tainted[v['n']] = tainted.get(v['n'], set()) | o
                                    changed = True
                        elif ev.get('k') == 'bin' and ev.get('op') in ('=', '+=', '-=', '*=', '/='):
                            l = T.strip(ev['l'])
                            if l.get('k') == 'var':
                                o = expr_origins(ev['r'])
                                if o and not o <= tainted.get(l['n'], set()):
                                    tainted[l['n']] = tainted.get(l['n'], set()) | o
                                    changed = True
            # loop index variables bounded by a tainted expression
            for f in fam:
                for b in f['blocks']:
                    t = b.get('term')
                    if t and t['c'] in ('ForStmt', 'WhileStmt', 'DoStmt') and 'cond' in t:
                        c = T.strip(t['cond'])
                        if c.get('k') == 'bin' and c['op'] in REL:
                            for side, other in ((T.strip(c['l']), c['r']), (T.strip(c['r']), c['l'])):
                                if side.get('k') == 'var':
                                    o = expr_origins(other)
                                    if o and not o <= tainted.get(side['n'], set()):
                                        tainted[side['n']] = tainted.get(side['n'], set()) | o
                                        changed = True
        # 3. sinks
        guard_cache = {}

        def guards_of(f):
            if f['key'] in guard_cache:
                return guard_cache[f['key']]
            g = C.Cfg(f)
            var_guard = {}
            arr_guard = {}
            for b in g.blocks.values():
                cond, _ = C.branch_cond(b)
                if cond is None:
                    continue
                vn, an = set(), set()
                for c in flatten_cond(cond):
                    c = T.strip(c)
                    if c.get('k') == 'bin' and c['op'] in REL:
                        for side, other in ((c['l'], c['r']), (c['r'], c['l'])):
                            if expr_tainted(other):
                                continue
                            for x in T.walk(side):
                                if x.get('k') == 'var' and x['n'] in tainted:
                                    vn.add(x['n'])
                                    an |= tainted[x['n']]
                                if tainted_read(x):
                                    an.add(read_key(x))
                var_guard[b['id']] = vn
                arr_guard[b['id']] = an
            guard_cache[f['key']] = (g, var_guard, arr_guard)
            return guard_cache[f['key']]

        def inherited(f):
            """(var guards, array guards) established in the enclosing function(s) before the
            lambda f is created"""
            site = lambda_site(db, f)
            if not site:
                return set(), set()
            p, bid = site
            g, vgd, agd = guards_of(p)
            dom = g.dominators()
            cov = set(dom.get(bid, ()))
            for h, body in g.loops().items():
                if h in dom.get(bid, ()) and bid not in body:
                    cov |= body
            vg, ag = set(), set()
            for d in cov:
                if d in dom.get(bid, ()):
                    vg |= vgd.get(d, set())
                ag |= agd.get(d, set())
            pv, pa = inherited(p)
            return vg | pv, ag | pa
        for f in fam:
            g, var_guard, arr_guard = guards_of(f)
            dom = g.dominators()
            loops = g.loops()
            inh_v, inh_a = inherited(f)
            def covering(bid):
                """guard blocks that every path to bid has passed: dominators, plus guards inside a
                loop that lies entirely before bid (the loop is assumed to visit every element)"""
                out = set(dom.get(bid, ()))
                for h, body in loops.items():
                    if h in dom.get(bid, ()) and bid not in body:
                        out |= body
                return out
            for b in g.blocks.values():
                for ev in b['ev']:
                    sinks = []
                    if is_subscript(ev):
                        base, idx = sub_parts(ev)
                        # std::map / unordered_map operator[] is total: not an index sink
                        assoc = ev.get('k') == 'call' and T.basename(ev.get('mcls') or '') in (
                            'std::map', 'std::unordered_map')
                        if idx is not None and not assoc:
                            sinks.append((T.pstr(base), idx, 'index'))
                    elif ev.get('k') == 'bin' and ev.get('op') in ('+', '-') and \
                            db.T(f, ev).get('ptr') and not db.T(f, ev).get('k') == 'fn':
                        sinks.append((T.pstr(ev['l']), ev['r'], 'pointer offset'))
                    elif ev.get('k') == 'call' and ev.get('fk') in idx_params:
                        for pi in idx_params[ev['fk']]:
                            if pi < len(ev.get('args', [])):
                                sinks.append((T.basename(ev['fn']) + '(arg %d)' % pi, ev['args'][pi],
                                              'callee index argument'))
                    for cont, idx, kind in sinks:
                        bad = {}
                        for x in T.walk(idx):
                            if x.get('k') == 'var' and x['n'] in tainted:
                                bad[x['n']] = set(tainted[x['n']])
                            elif tainted_read(x):
                                bad[strip_idx(T.pstr(x))] = {read_key(x)}
                        if not bad:
                            continue
                        nsink += 1
                        cov = covering(b['id'])
                        vg, ag = set(inh_v), set(inh_a)
                        for d in cov:
                            if d in dom.get(b['id'], ()):
                                vg |= var_guard.get(d, set())
                            ag |= arr_guard.get(d, set())
                        un = [n for n, orig in bad.items() if n not in vg and not orig <= ag]
                        ok = not un
                        chk.obligation(ok, {'function': f['name'], 'line': ev.get('ln'), 'container': cont,
                                            'tainted index': {k: sorted(v) for k, v in bad.items()}, 'kind': kind,
                                            'guard': 'value, or every element of its source array, compared '
                                                     'against an untainted bound on the way' if ok else 'NONE'})
                        if not ok:
                            chk.violation('C09.1a', root, '%s <- %s' % (strip_idx(cont), ','.join(sorted(un))),
                                          'value taken from caller-supplied %s data (%s) indexes %s (%s) with no '
                                          'bound check on the way: out-of-bounds access for a malformed input' %
                                          (uname, ','.join(sorted(set().union(*[bad[u] for u in un]))), cont, kind),
                                          line=ev.get('ln'), file=f['file'], cfg=cfgname)
    chk.count('c09.1a.tainted_index_sites', nsink)
    chk.count('c09.1a.consumers', len(roots))


def lambda_site(db, fn):
    """(parent function, block id) where lambda fn is created, or None"""
    pk = fn.get('parent')
    if not pk or pk not in db.functions:
        return None
    p = db.functions[pk]
    for b in p.get('blocks', []):
        for ev in b['ev']:
            for x in T.walk(ev):
                if x.get('k') == 'lambda' and x.get('fk') == fn['key']:
                    return p, b['id']
    return None


def strip_idx(s):
    """drop index expressions so constructs do not depend on loop-variable names"""
    out = []
    depth = 0
    for ch in s:
        if ch == '[':
            depth += 1
            if depth == 1:
                out.append('[]')
        elif ch == ']':
            depth -= 1
        elif depth == 0:
            out.append(ch)
    return ''.join(out)


def flatten_cond(c):
    c = T.strip(c)
    if c.get('k') == 'bin' and c['op'] in ('&&', '||'):
        return flatten_cond(c['l']) + flatten_cond(c['r'])
    if c.get('k') == 'un' and c.get('op') == '!':
        return flatten_cond(c['e'])
    return [c]


def rooted_at(n, name):
    r = T.root_of(n)
    return r is not None and r.get('k') == 'var' and r['n'] == name


def is_size_like(n):
    return False


def index_params(db):
    """fn key -> [param index] whose value is used in an index expression with no relational
    test of that parameter anywhere in the function (one level; library helpers)"""
    res = {}
    for f in db.functions.values():
        if not f.get('blocks') or f.get('kind') == 'lambda':
            continue
        if not f['file'].startswith('src/'):
            continue
        pn = {p['n']: i for i, p in enumerate(f['params']) if db.T(f, p['t']).get('k') in ('i',)}
        if not pn:
            continue
        used = set()
        tested = set()
        for b in f['blocks']:
            t = b.get('term')
            if t and 'cond' in t:
                for c in flatten_cond(t['cond']):
                    if c.get('k') == 'bin' and c['op'] in REL:
                        for x in T.walk(c):
                            if x.get('k') == 'var' and x['n'] in pn:
                                tested.add(x['n'])
            for ev in b['ev']:
                if is_subscript(ev):
                    _, idx = sub_parts(ev)
                    if idx is not None:
                        for x in T.walk(idx):
                            if x.get('k') == 'var' and x['n'] in pn and x.get('s') == 'p':
                                used.add(x['n'])
        hit = sorted(pn[n] for n in used - tested)
        if hit:
            res[f['key']] = hit
    return res


# ------------------------------------------------------------------------------------------------
def rule1b(chk, db, cfgname, tab):
    chk.rule('C09.1b', 'every array field of MeshGL that the ingest constructor reads has its length tested '
             '(size()/empty() in a branch whose failing side returns an error) before the first element read')
    ctors = [f for f in db.fn('manifold::Manifold::Impl::Impl')
             if any(db.T(f, p['t']).get('r') == MESHGL for p in f['params'])]
    if len(ctors) < 2:
        raise AnalysisBroken('C09.1b: ingest constructors not found')
    derived_ok = tab['length_derived_fields']
    for f in ctors:
        uname = [p['n'] for p in f['params'] if db.T(f, p['t']).get('r') == MESHGL][0]
        fam = family(db, f)
        read_fields = {}
        tested = set()
        for ff in fam:
            for b in ff['blocks']:
                t = b.get('term')
                if t and 'cond' in t:
                    for x in T.walk(t['cond']):
                        if x.get('k') == 'call' and T.short(x.get('fn', '')) in ('size', 'empty') and \
                                x.get('recv') is not None:
                            r = T.strip(x['recv'])
                            if r.get('k') == 'mem' and rooted_at(r, uname):
                                tested.add(r['n'])
                for ev in b['ev']:
                    if ev.get('k') == 'mem' and rooted_at(ev, uname) and db.T(ff, ev).get('r') == 'std::vector':
                        read_fields.setdefault(ev['n'], ev.get('ln'))
        for fld, ln in sorted(read_fields.items()):
            chk.count('c09.1b.fields')
            why = None
            if fld in tested:
                why = 'length tested in a branch'
            elif fld in derived_ok:
                why = 'reviewed: ' + derived_ok[fld]
            chk.obligation(why is not None, {'function': f['name'], 'field': fld, 'length validation': why or 'NONE'})
            if why is None:
                chk.violation('C09.1b', f, 'MeshGL.%s length' % fld,
                              'array %s.%s is consumed by the ingest but its length is never validated against the '
                              'mesh it must be parallel to' % (uname, fld), line=ln, cfg=cfgname)


# ------------------------------------------------------------------------------------------------
def rule2(chk, db, cfgname, tab):
    chk.rule('C09.2', 'a division or modulo whose divisor is a field of the caller-supplied MeshGL (directly or inside '
             'its accessors NumVert()/...) is dominated by a test of that field')
    # accessor summary: MeshGLP methods that divide by a field of this
    divides = {}
    for f in db.functions.values():
        if T.basename(f.get('cls', '') or '') != MESHGL or not f.get('blocks'):
            continue
        for b in f['blocks']:
            for ev in b['ev']:
                if ev.get('k') == 'bin' and ev.get('op') in ('/', '%'):
                    r = T.strip(ev['r'])
                    if r.get('k') == 'mem' and T.strip(r['base']).get('k') == 'this':
                        divides.setdefault(T.short(f['name']), set()).add(r['n'])
    if 'NumVert' not in divides:
        raise AnalysisBroken('C09.2: MeshGLP::NumVert no longer divides by a field (anchor moved)')
    n = 0
    for f in db.functions.values():
        if not f.get('blocks') or f.get('kind') == 'lambda':
            continue
        unames = [p['n'] for p in f['params'] if db.T(f, p['t']).get('r') == MESHGL]
        if not unames:
            continue
        for ff in family(db, f):
            g = C.Cfg(ff)
            dom = g.dominators()
            tested_at = {}
            for b in g.blocks.values():
                cond, _ = C.branch_cond(b)
                if cond is None:
                    continue
                for x in T.walk(cond):
                    if x.get('k') == 'mem' and rooted_at(x, unames[0]):
                        tested_at.setdefault(b['id'], set()).add(x['n'])
            for b in g.blocks.values():
                for ev in b['ev']:
                    divs = []
                    if ev.get('k') == 'bin' and ev.get('op') in ('/', '%'):
                        r = T.strip(ev['r'])
                        if r.get('k') == 'mem' and rooted_at(r, unames[0]):
                            divs.append((r['n'], 'direct'))
                    if ev.get('k') == 'call' and ev.get('recv') is not None and \
                            T.basename(ev.get('mcls', '') or '') == MESHGL and \
                            rooted_at(T.strip(ev['recv']), unames[0]) and T.short(ev['fn']) in divides:
                        for fld in divides[T.short(ev['fn'])]:
                            divs.append((fld, 'via %s()' % T.short(ev['fn'])))
                    for fld, how in divs:
                        n += 1
                        tested = set()
                        for d in dom.get(b['id'], ()):
                            if d != b['id']:
                                tested |= tested_at.get(d, set())
                        ok = fld in tested
                        chk.obligation(ok, {'function': ff['name'], 'line': ev.get('ln'),
                                            'divisor': '%s.%s' % (unames[0], fld), 'how': how,
                                            'dominating test': ok})
                        if not ok:
                            chk.violation('C09.2', f, 'divide by %s.%s %s' % (unames[0], fld, how),
                                          'division by an untrusted field that no dominating branch has tested: '
                                          '%s == 0 is integer division by zero' % fld, line=ev.get('ln'),
                                          file=ff['file'], cfg=cfgname)
    chk.count('c09.2.divisions', n)


# ------------------------------------------------------------------------------------------------
def rule4(chk, db, cfgname, tab):
    chk.rule('C09.4', 'every public Manifold method that builds a new Impl from an operand obtained with GetImpl() is '
             'dominated by a test of the operand status whose failing side returns PropagateStatus(...) (or hands the '
             'operands to a status-forwarding reduction); MakeEmpty/ErrorLeaf on an error path never carries NoError')
    reductions = set(tab['status_forwarding_reductions'])
    n = 0
    for f in db.functions.values():
        if f.get('cls') != 'manifold::Manifold' or f.get('kind') not in ('method',) or not f.get('blocks'):
            continue
        g = C.Cfg(f)
        gets = []
        news = []
        status_blocks = []
        uses_reduction = False
        for b in g.blocks.values():
            for ev in b['ev']:
                if ev.get('k') == 'call' and T.short(ev.get('fn', '')) == 'GetImpl':
                    gets.append((b['id'], ev))
                if ev.get('k') == 'call' and T.short(ev.get('fn', '')) in ('make_shared', 'make_unique') and \
                        any('Impl' in a for a in (db.T(f, ev).get('targs') or [])) and \
                        'CsgLeafNode' not in ''.join(db.T(f, ev).get('targs') or []):
                    news.append((b['id'], ev))
                if ev.get('k') == 'decl':
                    for v in ev['vars']:
                        t = db.T(f, v['t'])
                        if t.get('r') == 'manifold::Manifold::Impl' and not t.get('ref') and not t.get('ptr'):
                            news.append((b['id'], ev))
                if ev.get('k') in ('ctor', 'call') and T.basename(ev.get('cls') or ev.get('fn') or '') in reductions:
                    uses_reduction = True
            cond, _ = C.branch_cond(b)
            if cond is not None:
                m = False
                for x in T.walk(cond):
                    if x.get('k') == 'mem' and x['n'] == 'status_':
                        m = True
                    if x.get('k') == 'call' and T.short(x.get('fn', '')) == 'Status':
                        m = True
                    if x.get('k') == 'var' and x['n'] == 'status':
                        m = True
                if m:
                    # the failing side must reach a PropagateStatus return
                    status_blocks.append(b['id'])
        if not gets or not news:
            continue
        n += 1
        dom = g.dominators()
        has_prop = any(ev.get('k') == 'call' and T.short(ev.get('fn', '')) == 'PropagateStatus'
                       for _, ev in g.events() for ev in [ev])
        bad = []
        loops = g.loops()
        for bid, ev in news:
            cov = set(dom.get(bid, ()))
            for h, body in loops.items():
                if h in dom.get(bid, ()) and bid not in body:
                    cov |= body      # a loop over the operands that tests each one's status
            if not any(s in cov for s in status_blocks):
                bad.append(ev.get('ln'))
        ok = (not bad and has_prop) or uses_reduction
        chk.obligation(ok, {'function': f['name'], 'operands': len(gets), 'new Impl sites': len(news),
                            'status test dominates every new Impl': not bad, 'PropagateStatus': has_prop,
                            'uses forwarding reduction': uses_reduction})
        if not ok:
            chk.violation('C09.4', f, 'operand status unchecked',
                          'a new Impl is derived (lines %s) without a dominating test of the operand status that '
                          'returns PropagateStatus: an error operand silently becomes a NoError result' % bad,
                          cfg=cfgname)
    chk.count('c09.4.deriving_methods', n)
    # error paths never carry NoError: MakeEmpty(NoError) only on the reviewed empty-input path
    allowed = None
    m = 0
    for f in db.functions.values():
        for b in f.get('blocks', []):
            for ev in b['ev']:
                if ev.get('k') == 'call' and T.short(ev.get('fn', '')) in ('MakeEmpty', 'ErrorLeaf') and ev.get('args'):
                    a = T.strip(ev['args'][0])
                    enums = [x['n'] for x in T.walk(a) if x.get('k') == 'enum']
                    if enums:
                        m += 1
                        if any(e.endswith('::NoError') for e in enums):
                            ctrl = controlling_condition(f, b['id'])
                            ok = False
                            for a2 in tab['makeempty_noerror_ok']:
                                if a2['function'] == f['name'] and all(w in ctrl for w in a2['controlled_by']):
                                    ok = True
                            chk.obligation(ok, {'function': f['name'], 'line': ev.get('ln'),
                                                'MakeEmpty(NoError) reviewed': ok})
                            if not ok:
                                chk.violation('C09.4', f, 'MakeEmpty(NoError)', 'an error/early-exit path empties '
                                              'the Impl with Status NoError: the failure is indistinguishable from '
                                              'an empty solid', line=ev.get('ln'), cfg=cfgname)
    chk.count('c09.4.makeempty_sites', m)
    # the reductions themselves forward operand status
    res = db.one('manifold::Boolean3::Result')
    g = C.Cfg(res)
    first_field_use = None
    st = set()
    for b in g.rpo():
        cond, _ = C.branch_cond(g.blocks[b])
        if cond is not None:
            for x in T.walk(cond):
                if x.get('k') == 'mem' and x['n'] == 'status_':
                    st.add(T.pstr(x))
    ok = {'this->inP_.status_', 'this->inQ_.status_'} <= st
    chk.obligation(ok, {'function': res['name'], 'operand status tests': sorted(st)})
    if not ok:
        chk.violation('C09.4', res, 'Result status forwarding', 'Boolean3::Result no longer tests both operands\' '
                      'status_ (found %s)' % sorted(st), cfg=cfgname)
    comp = db.one('manifold::CsgLeafNode::Compose')
    ok = any(x.get('k') == 'mem' and x['n'] == 'status_'
             for b in comp['blocks'] if b.get('term') and 'cond' in b['term'] for x in T.walk(b['term']['cond']))
    chk.obligation(ok, {'function': comp['name'], 'operand status test': ok})
    if not ok:
        chk.violation('C09.4', comp, 'Compose status forwarding', 'Compose no longer tests its operands\' status_',
                      cfg=cfgname)
    tr = [f for f in db.fn('manifold::Manifold::Impl::Transform')]
    for f in tr:
        ok = any(x.get('k') == 'mem' and x['n'] == 'status_'
                 for b in f['blocks'] if b.get('term') and 'cond' in b['term'] for x in T.walk(b['term']['cond']))
        chk.obligation(ok, {'function': f['name'], 'operand status test': ok})
        if not ok:
            chk.violation('C09.4', f, 'Transform status forwarding', 'Impl::Transform no longer forwards status_',
                          cfg=cfgname)


# ------------------------------------------------------------------------------------------------
def rule4b(chk, db, cfgname, tab):
    chk.rule('C09.4b', 'in the evaluator\'s finalize step every result stored for a Subtract node passes both operand '
             'lists (positive_children, negative_children) through a status-forwarding reduction, unless the branch is '
             'taken exactly because that list is empty: an operand\'s error Status cannot be skipped')
    f = db.one('manifold::CsgOpNode::ToLeafNode')
    g = C.Cfg(f)
    dom = g.dominators()
    sub_blocks = [b['id'] for b in f['blocks'] if b.get('label') and b['label'].get('k') == 'case' and
                  'Subtract' in T.pstr(b['label'].get('e', {}))]
    if not sub_blocks:
        raise AnalysisBroken('C09.4b: Subtract case of the finalize switch not found')
    # locals that carry a list through a reduction
    carries = {}
    for b in f['blocks']:
        for ev in b['ev']:
            if ev.get('k') == 'decl':
                for v in ev['vars']:
                    if v.get('init') is not None:
                        s0 = T.pstr(v['init'])
                        for L in ('positive_children', 'negative_children'):
                            if L in s0:
                                carries.setdefault(v['n'], set()).add(L)
    n = 0
    for b in f['blocks']:
        if not any(sb in dom.get(b['id'], ()) for sb in sub_blocks):
            continue
        for ev in b['ev']:
            if not (ev.get('k') == 'call' and ev.get('op') == '=' and ev.get('recv') is not None):
                continue
            r = T.strip(ev['recv'])
            if not (T.pstr(r).lstrip('*').startswith('impl')):
                continue
            n += 1
            rhs = ' '.join(T.pstr(a) for a in ev.get('args', []))
            used = {L for L in ('positive_children', 'negative_children') if L in rhs}
            for x in ev.get('args', []):
                for y in T.walk(x):
                    if y.get('k') == 'var' and y['n'] in carries:
                        used |= carries[y['n']]
            ctrl = controlling_condition(f, b['id'])
            for L in ('positive_children', 'negative_children'):
                if L in used and not (L == 'positive_children' and 'positive_children[0]' in rhs and
                                      'BatchUnion' not in rhs and 'positive' not in
                                      [y.get('n') for x in ev.get('args', []) for y in T.walk(x)]):
                    chk.obligation(True, {'line': ev.get('ln'), 'list': L, 'consumed by': rhs[:70]})
                    continue
                ok = (L + '.empty()') in ctrl and '||' not in ctrl
                if L == 'positive_children' and 'positive_children[0]' in rhs:
                    # the raw first child is stored: legitimate only when nothing is subtracted and the
                    # positive list was reduced before (a local named from it exists)
                    ok = ('negative_children.empty()' in ctrl) and '||' not in ctrl
                    if not ok:
                        L = 'negative_children'
                if not ok:
                    for rv in tab.get('finalize_reviewed', []):
                        if rv['list'] == L and rv['controlled_by'] in ctrl and '||' not in ctrl:
                            ok = True
                            chk.count('c09.4b.reviewed')
                chk.obligation(ok, {'line': ev.get('ln'), 'list': L, 'not consumed; controlling condition': ctrl[:90]})
                if not ok:
                    chk.violation('C09.4b', f, '%s skipped at finalize' % L,
                                  'a Subtract result is stored without passing %s through a reduction, and the branch is '
                                  'not taken exactly because that list is empty (controlling condition: %s): an '
                                  'errored or cancelled operand there is silently dropped' % (L, ctrl[:120] or 'none'),
                                  line=ev.get('ln'), cfg=cfgname)
    chk.count('c09.4b.finalize_stores', n)


def rule5(chk, db, cfgname, tab):
    chk.rule('C09.5', 'the non-finite argument guards named by the property are present and dominate the use of the '
             'argument-derived data')
    for g5 in tab['nonfinite_guards']:
        fs = db.fn(g5['function'])
        if not fs:
            raise AnalysisBroken('C09.5: %s not found' % g5['function'])
        for f in fs:
            found = False
            for b in f['blocks']:
                t = b.get('term')
                if t and 'cond' in t:
                    for x in T.walk(t['cond']):
                        if x.get('k') == 'call' and T.short(x.get('fn', '')) in ('isfinite', 'AllFinite', 'IsFinite',
                                                                                  'all_of', 'any_of', 'isnan',
                                                                                  'isinf'):
                            s = T.pstr(x)
                            if any(a in s for a in g5['about']):
                                found = True
            chk.count('c09.5.guards')
            chk.obligation(found, {'function': f['name'], 'finiteness guard on': g5['about'], 'present': found})
            if not found:
                chk.violation('C09.5', f, 'non-finite guard on %s' % '/'.join(g5['about']),
                              'the finiteness test of the argument-derived data was removed: NaN/inf flows into '
                              'the result instead of an error or no-op', cfg=cfgname)


# ------------------------------------------------------------------------------------------------
def rule3(chk, db, cfgname, tab):
    chk.rule('C09.3', 'a floating->integer conversion of a value computed from a double parameter of a public entry '
             'point (followed through lambdas and up to two levels of internal callees) is dominated by a '
             'comparison/isfinite test on that parameter, or the value is clamped by min/fmin/clamp, or the site '
             'is reviewed')
    entry_cls = ('manifold::Manifold', 'manifold::CrossSection', 'manifold::Quality', 'manifold::ExecutionContext')
    reviewed = {(r['function'], r['param']): r['reason'] for r in tab['float_to_int_reviewed']}
    state = {'n': 0}

    def is_double(t):
        return t.get('k') == 'f' or (t.get('r') in ('linalg::vec', 'manifold::Box', 'manifold::Rect') and
                                      ('double' in t.get('s', '') or t.get('r') != 'linalg::vec')) or \
            t.get('s') in ('manifold::vec3', 'manifold::vec2', 'vec3', 'vec2', 'manifold::Box', 'Box')

    def analyse(entry, f, dparams, inherited, depth, chain):
        fam = family(db, f)
        src = {p: {p} for p in dparams}
        changed = True
        while changed:
            changed = False
            for ff in fam:
                for b in ff['blocks']:
                    for ev in b['ev']:
                        if ev.get('k') == 'decl':
                            for v in ev['vars']:
                                if v.get('init') is not None:
                                    o = origins(v['init'], src)
                                    if o and not o <= src.get(v['n'], set()):
                                        src[v['n']] = src.get(v['n'], set()) | o
                                        changed = True
                        elif ev.get('k') == 'bin' and ev.get('op') in ('=', '*=', '/=', '+=', '-='):
                            l = T.strip(ev['l'])
                            if l.get('k') == 'var':
                                o = origins(ev['r'], src)
                                if o and not o <= src.get(l['n'], set()):
                                    src[l['n']] = src.get(l['n'], set()) | o
                                    changed = True
        tcache = {}

        def tested_of(ff):
            if ff['key'] not in tcache:
                g = C.Cfg(ff)
                tested = {}
                for b in g.blocks.values():
                    cond, _ = C.branch_cond(b)
                    if cond is None:
                        continue
                    for c in flatten_cond(cond):
                        if (c.get('k') == 'bin' and c['op'] in REL + ('==', '!=')) or \
                                (c.get('k') == 'call' and T.short(c.get('fn', '')) in
                                 ('isfinite', 'isnan', 'AllFinite', 'IsFinite', 'all')):
                            tested.setdefault(b['id'], set()).update(origins(c, src))
                tcache[ff['key']] = (g, tested)
            return tcache[ff['key']]

        def inherited_tests(ff):
            site = lambda_site(db, ff)
            if not site or ff['key'] == f['key']:
                return set()
            p, bid = site
            g, tested = tested_of(p)
            out = set()
            for d in g.dominators().get(bid, ()):
                out |= tested.get(d, set())
            return out | inherited_tests(p)
        for ff in fam:
            g, tested = tested_of(ff)
            dom = g.dominators()
            inh = inherited_tests(ff) | inherited
            for b in g.blocks.values():
                for ev in b['ev']:
                    covered = set(inh)
                    for d in dom.get(b['id'], ()):
                        covered |= tested.get(d, set())
                    # follow tainted double arguments into internal callees
                    if ev.get('k') == 'call' and depth < 2 and ev.get('fk') in db.functions:
                        callee = db.functions[ev['fk']]
                        if callee.get('kind') != 'lambda' and callee['file'].startswith('src/') and \
                                not (callee.get('cls') in entry_cls and callee.get('access') == 'public') and \
                                callee['key'] not in chain:
                            passed = {}
                            for i, a in enumerate(ev.get('args', [])):
                                if i < len(callee['params']) and is_double(db.T(callee, callee['params'][i]['t'])):
                                    o = origins(a, src)
                                    if o:
                                        passed[callee['params'][i]['n']] = o
                            if passed:
                                # a callee parameter is 'tested' when all the caller parameters it stems from are
                                inh2 = {p for p, o in passed.items() if o <= covered}
                                sub = analyse(entry, callee, set(passed), inh2, depth + 1, chain | {callee['key']})
                    conv = None
                    if ev.get('k') == 'cast' and ev.get('ck') == 'FloatingToIntegral':
                        conv = ev['e']
                    elif ev.get('k') == 'ctor' and 'linalg::vec' in (ev.get('cls') or '') and ev.get('args') and \
                            len(ev['args']) == 1 and _vec_elem(db.T(ff, ev)) in ('int', 'long', 'unsigned int') and \
                            _vec_elem(db.T(ff, T.strip(ev['args'][0]))) in ('double', 'float'):
                        conv = ev['args'][0]
                    if conv is None:
                        continue
                    o = origins(conv, src)
                    if not o:
                        continue
                    state['n'] += 1
                    clamp = any(x.get('k') == 'call' and T.short(x.get('fn', '')) in ('fmin', 'min', 'clamp')
                                for x in T.walk(conv))
                    un = sorted(o - covered)
                    why = None
                    if not un:
                        why = 'parameter(s) %s tested on a dominating branch' % sorted(o)
                    elif clamp:
                        why = 'value clamped by min/fmin/clamp before the conversion'
                    else:
                        r = [reviewed.get((T.basename(f['name']), p)) for p in un]
                        if all(r):
                            why = 'reviewed: ' + '; '.join(r)
                            chk.count('c09.3.reviewed')
                    chk.obligation(why is not None, {'entry point': entry['name'], 'in': ff['name'],
                                                     'line': ev.get('ln'), 'converted': T.pstr(conv)[:80],
                                                     'from parameters': sorted(o), 'guard': why or 'NONE'})
                    if why is None:
                        chk.violation('C09.3', f, 'float->int of %s' % ','.join(un),
                                      'a value computed from double parameter(s) %s (reached from public entry %s) '
                                      'is converted to an integer (%s) with no dominating range/finiteness test: '
                                      'undefined behaviour for 0, NaN, inf or huge arguments' %
                                      (un, T.basename(entry['name']), T.pstr(conv)[:60]),
                                      line=ev.get('ln'), file=ff['file'], cfg=cfgname)

    for f in db.functions.values():
        if f.get('kind') == 'lambda' or not f.get('blocks'):
            continue
        if not (f.get('cls') in entry_cls and f.get('access') == 'public'):
            continue
        dparams = {p['n'] for p in f['params'] if is_double(db.T(f, p['t']))}
        if not dparams:
            continue
        analyse(f, f, dparams, set(), 0, frozenset([f['key']]))
    chk.count('c09.3.conversions', state['n'])


def controlling_condition(f, bid):
    """text of the condition(s) of the nearest branch that decides whether block bid runs: the deepest
    dominator with two successors of which exactly one can reach bid (plus the rest of its && / || chain)"""
    g = C.Cfg(f)
    dom = g.dominators()

    def reaches(src, avoid):
        seen = set()
        st = [src]
        while st:
            x = st.pop()
            if x == bid:
                return True
            if x in seen or x == avoid:
                continue
            seen.add(x)
            st.extend(g.real_succ(x))
        return False
    cands = []
    for d in dom.get(bid, ()):
        if d == bid:
            continue
        ss = g.real_succ(d)
        cond, _ = C.branch_cond(g.blocks[d])
        if cond is None or len(ss) != 2:
            continue
        r = [reaches(x, d) for x in ss]
        if r[0] != r[1]:
            cands.append((len(dom[d]), d, cond))
    cands.sort(reverse=True)
    out = []
    for _, d, cond in cands:
        out.append(T.pstr(cond))
        if g.blocks[d].get('term', {}).get('c') != 'BinaryOperator':
            break
    return ' ; '.join(out)


def _vec_elem(t):
    if t.get('r') == 'linalg::vec' and t.get('targs'):
        return t['targs'][0]
    return None


def origins(e, src):
    o = set()
    for x in T.walk(e):
        if x.get('k') == 'var' and x['n'] in src:
            o |= src[x['n']]
    return o


def rule4c(chk, db, cfgname):
    chk.rule('C09.4c', 'Boolean3::Result never returns a NoError solid while an operand carries an error: every return '
             'that does not itself forward an operand status is dominated by the status tests of BOTH operands '
             '(an errored operand is empty, so an emptiness fast path taken first would launder its error)')
    fs = [f for f in db.fn('manifold::Boolean3::Result') if f.get('blocks')]
    if len(fs) != 1:
        raise AnalysisBroken('C09.4c: Boolean3::Result not found uniquely')
    f = fs[0]
    g = C.Cfg(f)
    dom = g.dominators()
    tests = {'inP_': set(), 'inQ_': set()}
    for b in f['blocks']:
        cond, _ = C.branch_cond(b)
        if cond is None:
            continue
        for x in T.walk(cond):
            if isinstance(x, dict) and x.get('k') == 'mem' and x.get('n') == 'status_':
                base = T.strip(x['base'])
                if base.get('k') == 'mem' and base.get('n') in tests:
                    tests[base['n']].add(b['id'])
    if not tests['inP_'] or not tests['inQ_']:
        raise AnalysisBroken('C09.4c: operand status tests of Boolean3::Result not found')
    n = 0
    for b in f['blocks']:
        if b['id'] not in g.reachable():
            continue
        for e in b['ev']:
            if e.get('k') != 'return':
                continue
            # a return inside the error branch of a status test forwards that status
            deps = {d for d, k in g.control_deps(b['id'])}
            if deps & (tests['inP_'] | tests['inQ_']) and any(
                    isinstance(y, dict) and y.get('k') == 'mem' and y.get('n') == 'status_'
                    for bb in f['blocks'] if bb['id'] == b['id'] or bb['id'] in deps for ee in bb['ev']
                    for y in T.walk(ee)):
                continue
            n += 1
            d = dom.get(b['id'], set())
            okp = bool(tests['inP_'] & d)
            okq = bool(tests['inQ_'] & d)
            ok = okp and okq
            chk.obligation(ok, {'function': f['name'], 'line': e.get('ln'), 'inP_.status_ tested before': okp,
                                'inQ_.status_ tested before': okq})
            if not ok:
                chk.violation('C09.4c', f, 'return without %s status test' % ('inQ_' if okp else 'inP_'),
                              'Boolean3::Result can return a NoError result at line %s without having looked at the '
                              'status of %s: an errored (hence empty) operand is treated as a valid empty solid and '
                              'its error is lost' % (e.get('ln'), 'inQ_' if okp else 'inP_'), line=e.get('ln'),
                              cfg=cfgname)
    chk.count('c09.4c.result_returns', n)


def main(chk, tier):
    import db as D
    configs = ['seq', 'par'] if tier == 'quick' else ['seq', 'par', 'seq-debug', 'par-debug']
    tab = load_table()
    for cfgname in configs:
        db = D.load(cfgname)
        chk.configs.append(cfgname)
        chk.units = len(db.units)
        chk.functions_analysed += len(db.functions)
        rule1a(chk, db, cfgname, tab)
        rule1b(chk, db, cfgname, tab)
        rule2(chk, db, cfgname, tab)
        rule3(chk, db, cfgname, tab)
        rule4(chk, db, cfgname, tab)
        rule4b(chk, db, cfgname, tab)
        rule4c(chk, db, cfgname)
        rule5(chk, db, cfgname, tab)
    n = len(configs)
    chk.floor('c09.4c.result_returns', 4 * n)
    chk.floor('c09.1a.tainted_index_sites', 6 * n)
    chk.floor('c09.1b.fields', 16 * n)
    chk.floor('c09.2.divisions', 4 * n)
    chk.floor('c09.3.conversions', 4 * n)
    chk.floor('c09.4.deriving_methods', 15 * n)
    chk.floor('c09.5.guards', 5 * n)
    chk.floor('c09.4b.finalize_stores', 2 * n)
    chk.floor('c09.1a.smoothness_consumers', 3 * n)
    return chk.finish(
        'Static taint/domination analysis of every function that consumes a caller-supplied MeshGL (and its '
        'lambdas): element values used as indices, divisions by struct fields, array-length validations; '
        'float->int conversions of values derived from double parameters of public entry points; status '
        'forwarding in every deriving public method and in the evaluator reductions; presence of the '
        'non-finite guards. Decides that the structural guards exist on every path; does not decide termination, '
        '32-bit counter overflow on huge inputs, or allocator failures.',
        assumptions=['taint is flow-insensitive inside one function family (function + its lambdas)',
                     'a relational comparison of the tainted value against an untainted expression on a dominating '
                     'branch is taken to bound it (the failing side is an early exit in every instance on the tree)'])
