"""C03 — a CSG expression denotes one solid however it is built (structural clauses), and
C16 operand-order clause (shared rule `rule_operand_order`).

C03.1 composition order: in every function that combines a newly applied matrix with a stored transform, the
      left operand of the product is the newer transform and the right operand (wrapped in Mat4/Mat3) the stored one
C03.2 untransformed sharing: what ToLeafNode stores into the shared *impl does not depend on any transform_;
      cache_ is (*impl)[0]->Transform(op_node->transform_)
C03.3 same Status: every reduction tests each operand's status_ (C09.4 covers the deriving methods)
C03.4 operand order: operand reordering only under a test / constant that implies a commutative op
C03.5 perturbation protocol: Boolean3(op).Result(op') with (op == Add) == (op' == Add)
"""
import json
import os

import cfg as C
import tree as T
from db import AnalysisBroken, VERIF

COMMUTATIVE = ('manifold::OpType::Add', 'manifold::OpType::Intersect')


def load_table():
    return json.load(open(os.path.join(VERIF, 'rules', 'tables', 'c03.json')))


def norm(p):
    return p.replace('->', '.').replace('this.', '')


def rule_composition(chk, db, cfgname, tab, rid):
    chk.rule(rid, 'transform composition order: result = newer * Mat(stored) — the left operand of every transform '
             'product is the newly applied matrix (parameter / outer frame / node transform), the right operand the '
             'stored one; both orders type-check, so only provenance tells them apart')
    n = 0
    for site in tab['composition_sites']:
        fs = db.fn(site['function'])
        if not fs:
            raise AnalysisBroken('%s: composition site %s not found' % (rid, site['function']))
        found = 0
        for f in fs:
            fam = [f] + [g for k, g in db.functions.items() if k.startswith(f['key'] + '::<lambda@')]
            for ff in fam:
                for b in ff['blocks']:
                    for ev in b['ev']:
                        for x in T.walk(ev):
                            if x.get('k') == 'call' and x.get('op') == '*' and len(x.get('args', [])) + \
                                    (1 if x.get('recv') is not None else 0) == 2:
                                ops = ([x['recv']] if x.get('recv') is not None else []) + x.get('args', [])
                                l, r = ops[0], ops[1]
                                rs = T.strip_copy(r)
                                # right operand is Mat4(...) / Mat3(...) of something
                                if not (rs.get('k') == 'call' and T.short(rs.get('fn', '')) in ('Mat4', 'Mat3')):
                                    continue
                                if x.get('i') is not None and (ff['key'], x['i']) in seen_products:
                                    continue
                                seen_products.add((ff['key'], x.get('i')))
                                def resolve(nd):
                                    # a local that is a const alias/copy of a member access stands for that access
                                    nd = T.strip_copy(nd)
                                    if nd.get('k') == 'var' and nd.get('s') == 'l':
                                        defs = [v['init'] for bb in ff['blocks'] for ee in bb['ev']
                                                if ee.get('k') == 'decl' for v in ee['vars']
                                                if v['n'] == nd['n'] and v.get('init') is not None]
                                        if len(defs) == 1 and T.strip_copy(defs[0]).get('k') == 'mem':
                                            return T.strip_copy(defs[0])
                                    return nd
                                lp = norm(T.pstr(resolve(l)))
                                rp = norm(T.pstr(resolve(rs['args'][0])))
                                if site['right'] != rp and site['left'] != lp and \
                                        not (site['right'] == lp and site['left'] == rp):
                                    continue
                                found += 1
                                n += 1
                                ok = lp == site['left'] and rp == site['right']
                                chk.obligation(ok, {'function': ff['name'], 'line': x.get('ln'),
                                                    'product': '%s * Mat(%s)' % (lp, rp),
                                                    'expected': '%s * Mat(%s)' % (site['left'], site['right'])})
                                if not ok:
                                    chk.violation(rid, f, 'product %s * Mat(%s)' % (lp, rp),
                                                  'transform composed in the wrong order: the stored transform is '
                                                  'applied after the new one (expected %s * Mat(%s)): a chain of '
                                                  'transforms no longer equals its matrix product applied once' %
                                                  (site['left'], site['right']), line=x.get('ln'), cfg=cfgname)
        if not found:
            raise AnalysisBroken('%s: no transform product with operands %s / %s in %s' %
                                 (rid, site['left'], site['right'], site['function']))
    chk.count(rid.lower() + '.products', n)


seen_products = set()


def rule_sharing(chk, db, cfgname, rid):
    chk.rule(rid, 'in ToLeafNode\'s finalize step nothing stored into the shared operand vector *impl depends on a '
             'node transform, and cache_ is exactly (*impl)[0]->Transform(op_node->transform_): nodes that differ '
             'only in transform_ can share impl_')
    f = db.one('manifold::CsgOpNode::ToLeafNode')
    n = 0
    cache_ok = False
    for b in f['blocks']:
        for ev in b['ev']:
            if ev.get('k') == 'call' and ev.get('op') == '=' and ev.get('recv') is not None:
                tgt = T.pstr(T.strip(ev['recv']))
                rhs = ' '.join(T.pstr(a) for a in ev.get('args', []))
                if tgt.lstrip('*').startswith('impl'):
                    n += 1
                    dep = 'transform' in rhs or 'cache_' in rhs      # cache_ IS the transformed result
                    chk.obligation(not dep, {'line': ev.get('ln'), 'stored into *impl': rhs[:80],
                                             'mentions a transform or cache_': dep})
                    if dep:
                        chk.violation(rid, f, '*impl depends on transform',
                                      'the shared operand vector receives a transformed result (%s): another node '
                                      'sharing impl_ with a different transform_ would reuse it' % rhs[:80],
                                      line=ev.get('ln'), cfg=cfgname)
                if tgt.endswith('op_node->cache_') and 'Transform' in rhs:
                    ok = 'impl' in rhs and 'op_node->transform_' in rhs
                    cache_ok = cache_ok or ok
                    chk.obligation(ok, {'line': ev.get('ln'), 'cache_ =': rhs[:90]})
                    if not ok:
                        chk.violation(rid, f, 'cache_ not impl[0] * transform_', 'cache_ is not computed as '
                                      '(*impl)[0]->Transform(op_node->transform_): %s' % rhs[:90],
                                      line=ev.get('ln'), cfg=cfgname)
    if n < 4 or not cache_ok:
        raise AnalysisBroken('%s: finalize stores not found (%d) or cache_ publish missing' % (rid, n))
    chk.count(rid.lower() + '.stores', n)


def rule_status(chk, db, cfgname, rid):
    chk.rule(rid, 'every reduction the evaluator can choose tests each operand\'s status_ before producing a result')
    import c09
    # reuse the reduction part of C09.4
    res = db.one('manifold::Boolean3::Result')
    st = set()
    for b in res['blocks']:
        t = b.get('term')
        if t and 'cond' in t:
            for x in T.walk(t['cond']):
                if x.get('k') == 'mem' and x['n'] == 'status_':
                    st.add(T.pstr(x))
    ok = {'this->inP_.status_', 'this->inQ_.status_'} <= st
    chk.obligation(ok, {'function': res['name'], 'status tests': sorted(st)})
    if not ok:
        chk.violation(rid, res, 'Result status forwarding', 'Boolean3::Result no longer tests both operands', cfg=cfgname)
    for name in ('manifold::CsgLeafNode::Compose', 'manifold::Manifold::Impl::Transform'):
        for f in db.fn(name):
            ok = any(x.get('k') == 'mem' and x['n'] == 'status_'
                     for b in f['blocks'] if b.get('term') and 'cond' in b['term'] for x in T.walk(b['term']['cond']))
            chk.obligation(ok, {'function': f['name'], 'operand status test': ok})
            if not ok:
                chk.violation(rid, f, 'status forwarding', '%s no longer tests operand status_' % T.short(name),
                              cfg=cfgname)
    chk.count(rid.lower() + '.reductions', 3)


def implies_commutative(cond_text):
    if 'manifold::OpType::Subtract' in cond_text or '!=' in cond_text:
        return False
    return 'manifold::OpType::Add' in cond_text or 'manifold::OpType::Intersect' in cond_text


def rule_operand_order(chk, db, cfgname, tab, rid):
    chk.rule(rid, 'operand order is preserved wherever the operation is not commutative: every event that reorders '
             'Boolean/Minkowski operands (std::swap of operand handles, delegation second->Boolean(this, op)) is '
             'control-dependent on a test that implies a commutative operation, or sits in a function whose every '
             'caller passes a commutative constant')
    import c09
    n = 0
    for site in tab['reorder_sites']:
        fs = db.fn(site['function'])
        if not fs:
            raise AnalysisBroken('%s: reorder site %s not found' % (rid, site['function']))
        for f in fs:
            g = C.Cfg(f)
            hits = []
            for b in f['blocks']:
                for ev in b['ev']:
                    if ev.get('k') != 'call':
                        continue
                    nm = T.short(ev.get('fn', ''))
                    if site['event'] == 'swap' and nm == 'swap' and ev.get('fn', '').startswith('std::'):
                        s0 = ' '.join(T.pstr(a) for a in ev.get('args', []))
                        if any(w in s0 for w in site['operands']):
                            hits.append((b['id'], ev, s0))
                    if site['event'] == 'delegate' and nm == 'Boolean' and ev.get('recv') is not None and \
                            'second' in T.pstr(ev['recv']):
                        hits.append((b['id'], ev, T.pstr(ev)[:70]))
            if not hits:
                raise AnalysisBroken('%s: no %s event on %s in %s' % (rid, site['event'], site['operands'],
                                                                      site['function']))
            for bid, ev, s0 in hits:
                n += 1
                ctrl = all_controlling(f, g, bid)
                ok = False
                why = 'no dominating commutativity test'
                if site['guard'] == 'op_commutative':
                    pos = [c for c in ctrl if not c.startswith('!(') and implies_commutative(c)]
                    ok = bool(pos)
                    why = 'controlled by %s' % [c[:70] for c in pos]
                elif site['guard'] == 'callers_constant':
                    # every call of the function passes a commutative constant / the function has no op parameter
                    ok, why = callers_commutative(db, f, site)
                elif site['guard'] == 'not_param':
                    p = site['param']
                    ok = any(('!' + p) in c.replace(' ', '') or (p + ' == false') in c for c in ctrl)
                    why = 'controlled by %s' % [c[:60] for c in ctrl] if ok else \
                        'swap is not control-dependent on !%s (controlling conditions: %s)' % (p, [c[:50] for c in ctrl])
                chk.obligation(ok, {'function': f['name'], 'line': ev.get('ln'), 'reorders': s0[:60], 'guard': why})
                if not ok:
                    chk.violation(rid, f, '%s of %s under %s' % (site['event'], '/'.join(site['operands']),
                                                                 ' & '.join(c[:50] for c in ctrl) or 'no condition'),
                                  'operands are reordered (%s) without a dominating test that the operation is '
                                  'commutative: %s' % (s0[:60], why), line=ev.get('ln'), cfg=cfgname)
    chk.count(rid.lower() + '.reorder_events', n)


def all_controlling(f, g, bid):
    """condition texts (with polarity) of every branch edge block bid is control dependent on"""
    out = []
    for d, k in g.control_deps(bid):
        cond, _ = C.branch_cond(g.blocks[d])
        if cond is None:
            continue
        txt = T.pstr(cond)
        out.append(txt if k == 0 else '!(' + txt + ')')
    return out


def callers_commutative(db, f, site):
    ops = []
    for g in db.functions.values():
        for b in g.get('blocks', []):
            for ev in b['ev']:
                if ev.get('k') == 'call' and ev.get('fk') == f['key']:
                    a = T.arg_of(ev, site.get('op_param', 'op'))
                    ops.append((g['name'], T.pstr(a) if a is not None else None))
    if site.get('op_param') is None:
        return True, 'function has no operation parameter (it only ever unions): %d callers' % len(ops)
    bad = [o for o in ops if o[1] not in COMMUTATIVE]
    return (not bad and bool(ops)), 'callers pass %s' % sorted({o[1] for o in ops})


def rule_protocol(chk, db, cfgname, rid):
    chk.rule(rid, 'perturbation protocol: every Boolean3 object is constructed with op and asked for Result(op\') with '
             '(op == Add) == (op\' == Add) — the code\'s own DEBUG_ASSERT, compiled out in release')
    n = 0
    for f in db.functions.values():
        if not f.get('blocks'):
            continue
        ctor_ops = {}
        for b in f['blocks']:
            for ev in b['ev']:
                if ev.get('k') == 'decl':
                    for v in ev['vars']:
                        init = v.get('init')
                        if init is not None and T.strip(init).get('k') == 'ctor' and \
                                T.basename(T.strip(init).get('cls', '')) == 'manifold::Boolean3':
                            a = T.strip(init).get('args', [])
                            if len(a) >= 3:
                                ctor_ops[v['n']] = T.pstr(a[2])
        for b in f['blocks']:
            for ev in b['ev']:
                if ev.get('k') == 'call' and T.basename(ev.get('fn', '')) == 'manifold::Boolean3::Result' and \
                        ev.get('recv') is not None:
                    r = T.strip(ev['recv'])
                    if r.get('k') == 'var' and r['n'] in ctor_ops:
                        n += 1
                        cop, rop = ctor_ops[r['n']], T.pstr(ev['args'][0])
                        same_var = cop == rop
                        ok = same_var or (('OpType::Add' in cop) == ('OpType::Add' in rop) and
                                          'OpType::' in cop and 'OpType::' in rop)
                        chk.obligation(ok, {'function': f['name'], 'line': ev.get('ln'),
                                            'Boolean3(%s).Result(%s)' % (cop, rop): ok})
                        if not ok:
                            chk.violation(rid, f, 'Boolean3(%s).Result(%s)' % (cop, rop),
                                          'the symbolic perturbation chosen at construction (expand P only for Add) '
                                          'does not match the operation asked of Result', line=ev.get('ln'),
                                          cfg=cfgname)
    if n < 2:
        raise AnalysisBroken('%s: Boolean3 construct/Result pairs not found (%d)' % (rid, n))
    chk.count(rid.lower() + '.pairs', n)


def rule_cache_identity(chk, db, cfgname, rid):
    chk.rule(rid, 'CsgOpNode::cache_ holds the result of exactly one (children, op, transform) triple: an op node is never '
             'copy-constructed or copy-assigned (the copy would carry a cache computed under another transform), and '
             'transform_/op_/impl_ of an op node are written only on a node default-constructed in the same function')
    OP = 'manifold::CsgOpNode'
    n = 0
    for f in db.functions.values():
        if not f.get('blocks') or not f['file'].startswith('src/'):
            continue
        fresh = set()
        for b in f['blocks']:
            for e in b['ev']:
                if e.get('k') == 'decl':
                    for v in e['vars']:
                        i = T.strip_copy(v['init']) if v.get('init') is not None else None
                        if i is not None and i.get('k') == 'call' and T.short(i.get('fn', '')) == 'make_shared' and \
                                'CsgOpNode' in ''.join(db.T(f, i).get('targs') or []):
                            copied = any(db.T(f, T.strip_copy(a)).get('r') == OP or
                                         (T.strip_copy(a).get('k') == 'un' and T.strip_copy(a).get('op') == '*' and
                                          T.strip_copy(T.strip_copy(a)['e']).get('k') == 'this' and f.get('cls') == OP)
                                         for a in i.get('args', []))
                            if copied:
                                # a copy whose cache_ is cleared right away is a fresh node again
                                for bb in f['blocks']:
                                    for ee in bb['ev']:
                                        tgt = None
                                        if ee.get('k') == 'call' and ee.get('recv') is not None and \
                                                (ee.get('op') == '=' or T.short(ee.get('fn', '')) == 'reset'):
                                            tgt = T.strip(ee['recv'])
                                        if tgt is not None and tgt.get('k') == 'mem' and tgt.get('n') == 'cache_' and \
                                                T.pstr(tgt).lstrip('(*').startswith(v['n']) and \
                                                (T.short(ee.get('fn', '')) == 'reset' or
                                                 any(isinstance(y, dict) and y.get('k') == 'nullptr'
                                                     for a in ee.get('args', []) for y in T.walk(a))):
                                            copied = False
                            n += 1
                            chk.obligation(not copied, {'function': f['name'][:70], 'line': e.get('ln'),
                                                        'make_shared<CsgOpNode>': 'copy of an existing node' if copied
                                                        else 'fresh node'})
                            if copied:
                                chk.violation(rid, f, 'op node copy-constructed',
                                              'make_shared<CsgOpNode>(existing node) copies cache_ together with the '
                                              'children: the new node answers ToLeafNode with a result computed under '
                                              'the old transform', line=e.get('ln'), cfg=cfgname)
                            if not copied:
                                fresh.add(v['n'])
                if e.get('k') == 'ctor' and e.get('cls') == OP and (e.get('copy')) and not f.get('defaulted'):
                    n += 1
                    chk.obligation(False, {'function': f['name'][:70], 'line': e.get('ln'), 'CsgOpNode': 'copy constructed'})
                    chk.violation(rid, f, 'op node copy-constructed', 'a CsgOpNode is copy-constructed: its cache_ '
                                  'travels to a node with a different identity', line=e.get('ln'), cfg=cfgname)
        for b in f['blocks']:
            for e in b['ev']:
                lhs = None
                if e.get('k') == 'bin' and e.get('op') == '=':
                    lhs = T.strip(e['l'])
                elif e.get('k') == 'call' and e.get('op') == '=' and e.get('recv') is not None:
                    lhs = T.strip(e['recv'])
                if lhs is None or lhs.get('k') != 'mem' or lhs.get('cls') != OP or \
                        lhs.get('n') not in ('transform_', 'op_', 'impl_'):
                    continue
                if f.get('cls') == OP and f.get('kind') == 'ctor':
                    continue
                n += 1
                base = T.root_of(lhs)
                ok = base is not None and base.get('k') == 'var' and base.get('n') in fresh
                chk.obligation(ok, {'function': f['name'][:70], 'line': e.get('ln'), 'write': T.pstr(lhs)[:40],
                                    'on a node created here': ok})
                if not ok:
                    chk.violation(rid, f, '%s written on an existing node' % lhs['n'],
                                  '%s of an op node that was not default-constructed in this function is rewritten: a '
                                  'cache_ it may already hold no longer matches the node' % lhs['n'],
                                  line=e.get('ln'), cfg=cfgname)
    chk.count(rid.lower() + '.opnode_sites', n)


GROW = {'push_back', 'emplace_back'}
SHRINK = {'erase', 'resize', 'pop_back', 'clear'}


def rule_coindexed(chk, db, cfgname, rid):
    chk.rule(rid, 'a local array built element-by-element from another local container (B[k] describes A[k]) and kept '
             'across iterations of a loop is restructured together with it: every grow / shrink / element swap applied '
             'to A inside that loop has a counterpart on B in the same block (otherwise B[k] describes the wrong '
             'operand afterwards)')
    n = 0
    for f in db.functions.values():
        if not f.get('blocks') or not f['file'].startswith('src/csg_tree'):
            continue
        g = C.Cfg(f)
        loops = g.loops()
        if not loops:
            continue
        # range-for element variables -> container
        rng = {}
        elem = {}
        for b in f['blocks']:
            for e in b['ev']:
                if e.get('k') == 'decl':
                    for v in e['vars']:
                        if v.get('init') is None:
                            continue
                        i = T.strip_copy(v['init'])
                        if v['n'].startswith('__range'):
                            r = T.root_of(i)
                            if r is not None and r.get('k') == 'var':
                                rng[v['n']] = r['n']
                        elif i.get('k') == 'call' and i.get('op') == '*' and i.get('recv') is not None:
                            r = T.strip_copy(i['recv'])
                            if r.get('k') == 'var' and r['n'].startswith('__begin'):
                                elem[v['n']] = '__range' + r['n'][len('__begin'):]
        elem = {k: rng.get(v) for k, v in elem.items() if rng.get(v)}
        decl_block = {}
        for b in f['blocks']:
            for e in b['ev']:
                if e.get('k') == 'decl':
                    for v in e['vars']:
                        decl_block[v['n']] = b['id']
        # derived pairs: B.push_back(expr mentioning an element of A)
        pairs = set()
        for b in f['blocks']:
            for e in b['ev']:
                if e.get('k') == 'call' and T.short(e.get('fn', '')) in GROW and e.get('recv') is not None and e.get('args'):
                    rb = T.root_of(T.strip_copy(e['recv']))
                    if rb is None or rb.get('k') != 'var':
                        continue
                    # B.push_back(elem.Describe()): the pushed value is computed *from* the element (a method call
                    # on it), it is not the element itself being moved or copied elsewhere
                    top = T.strip_copy(e['args'][0])
                    while top.get('k') in ('mtemp', 'bindtemp') and 'e' in top:
                        top = T.strip_copy(top['e'])
                    if top.get('k') == 'call' and top.get('recv') is not None and top.get('op') not in ('[]', '*'):
                        r0 = T.root_of(T.strip_copy(top['recv']))
                        if r0 is not None and r0.get('k') == 'var':
                            a = elem.get(r0['n'])
                            if a and a != rb['n']:
                                pairs.add((a, rb['n']))
        for (A, B) in sorted(pairs):
            # loops in which A is restructured and which B's declaration encloses (B lives across iterations)
            for h, body in loops.items():
                if decl_block.get(B) in body or decl_block.get(A) in body:
                    continue
                for b in f['blocks']:
                    if b['id'] not in body:
                        continue
                    kinds = {'A': set(), 'B': set()}
                    lines = {}
                    for e in b['ev']:
                        if e.get('k') != 'call':
                            continue
                        m = T.short(e.get('fn', ''))
                        if m == 'swap' and len(e.get('args', [])) == 2:
                            roots = {(T.root_of(T.strip_copy(x)) or {}).get('n') for x in e['args']}
                            for nm, key in ((A, 'A'), (B, 'B')):
                                if roots == {nm}:
                                    kinds[key].add('swap')
                                    lines[(key, 'swap')] = e.get('ln')
                        elif e.get('recv') is not None and (m in GROW or m in SHRINK):
                            r = T.root_of(T.strip_copy(e['recv']))
                            if r is not None and r.get('k') == 'var' and T.strip_copy(e['recv']).get('k') == 'var':
                                for nm, key in ((A, 'A'), (B, 'B')):
                                    if r['n'] == nm:
                                        kk = 'grow' if m in GROW else 'shrink'
                                        kinds[key].add(kk)
                                        lines[(key, kk)] = e.get('ln')
                    for kk in sorted(kinds['A']):
                        n += 1
                        ok = kk in kinds['B']
                        chk.obligation(ok, {'function': f['name'][:60], 'line': lines.get(('A', kk)),
                                            'arrays': '%s[k] describes %s[k]' % (B, A), 'operation on ' + A: kk,
                                            'mirrored on ' + B: ok})
                        if not ok:
                            chk.violation(rid, f, '%s of %s not mirrored on %s' % (kk, A, B),
                                          '%s is built element-by-element from %s and both live across iterations of '
                                          'the loop, but a %s of %s at line %s has no counterpart on %s in the same '
                                          'block: afterwards %s[k] no longer describes %s[k]'
                                          % (B, A, kk, A, lines.get(('A', kk)), B, B, A),
                                          line=lines.get(('A', kk)), cfg=cfgname)
    chk.count(rid.lower() + '.coindexed_operations', n)


def rule_dtor(chk, db, cfgname, rid):
    chk.rule(rid, 'CsgOpNode::~CsgOpNode empties a children vector only while it is the sole holder of that vector: every '
             'use of the payload of Y.impl_ (through its guard) is control-dependent on Y.impl_.UseCount() == 1 - '
             'CsgOpNode::Transform makes nodes that share one children vector, so holding the last reference to a node '
             'is not enough')
    fs = [f for f in db.functions.values() if f.get('blocks') and f.get('kind') == 'dtor' and
          f.get('cls') == 'manifold::CsgOpNode']
    if len(fs) != 1:
        raise AnalysisBroken('%s: CsgOpNode destructor not found' % rid)
    f = fs[0]
    g = C.Cfg(f)
    guards = {}
    for b in f['blocks']:
        for e in b['ev']:
            if e.get('k') == 'decl':
                for v in e['vars']:
                    i = T.strip_copy(v['init']) if v.get('init') is not None else None
                    if i is not None and i.get('k') == 'call' and T.short(i.get('fn', '')) == 'GetGuard' and \
                            i.get('recv') is not None:
                        guards[v['n']] = norm(T.pstr(T.strip(i['recv'])))
    n = 0
    for b in f['blocks']:
        for e in b['ev']:
            if e.get('k') != 'call' or e.get('recv') is not None and T.short(e.get('fn', '')) == 'GetGuard':
                continue
            used = [y['n'] for a in e.get('args', []) for y in T.walk(a)
                    if isinstance(y, dict) and y.get('k') == 'var' and y.get('n') in guards]
            for gv in used:
                n += 1
                owner = guards[gv]
                seen, work, ok = set(), [b['id']], False
                while work:
                    y = work.pop()
                    for d, k in g.control_deps(y):
                        if (d, k) in seen:
                            continue
                        seen.add((d, k))
                        work.append(d)
                        cond, _ = C.branch_cond(g.blocks[d])
                        if cond is not None and k == 0 and 'UseCount' in T.pstr(cond) and \
                                norm(T.pstr(cond)).find(owner + '.UseCount()') >= 0 and '== 1' in T.pstr(cond):
                            ok = True
                chk.obligation(ok, {'function': f['name'], 'line': e.get('ln'), 'payload of': owner,
                                    'under %s.UseCount() == 1' % owner: ok})
                if not ok:
                    chk.violation(rid, f, 'children of %s emptied without UseCount test' % owner,
                                  'the destructor moves the children out of %s without testing %s.UseCount() == 1: a '
                                  'node made by Transform() that shares this vector is left with no operands and '
                                  'evaluates to the empty solid (or crashes)' % (owner, owner), line=e.get('ln'),
                                  cfg=cfgname)
    chk.count(rid.lower() + '.payload_uses', n)


def rule_no_silent_drop(chk, db, cfgname, rid):
    chk.rule(rid, 'the evaluator never filters operands out of a reduction by a predicate that ignores their status: an '
             'errored or cancelled operand is an EMPTY Impl carrying status_, so "drop empty operands" before Compose / '
             'Boolean3 makes every later status test unreachable')
    n = 0
    for f in db.functions.values():
        if not f.get('blocks') or f['file'] != 'src/csg_tree.cpp':
            continue
        for b in f['blocks']:
            for e in b['ev']:
                if e.get('k') == 'call' and T.short(e.get('fn', '')) in ('remove_if', 'erase_if', 'partition',
                                                                        'stable_partition', 'copy_if'):
                    lam = [x for x in T.walk(e) if isinstance(x, dict) and x.get('k') == 'lambda' and
                           x.get('fk') in db.functions]
                    if not lam:
                        continue
                    body = db.functions[lam[0]['fk']]
                    ptypes = [db.T(body, p['t']).get('c') or '' for p in body['params']]
                    if not any('CsgLeafNode' in t or 'Manifold' in t or 'CsgNode' in t for t in ptypes):
                        continue
                    n += 1
                    looks = any(isinstance(y, dict) and ((y.get('k') == 'mem' and y.get('n') == 'status_') or
                                                         (y.get('k') == 'call' and T.short(y.get('fn', '')) in
                                                          ('Status', 'GetStatus')))
                                for bb in body['blocks'] for ee in bb['ev'] for y in T.walk(ee))
                    chk.obligation(looks, {'function': f['name'][:60], 'line': e.get('ln'), 'filter': T.short(e['fn']),
                                           'predicate looks at status': looks})
                    if not looks:
                        chk.violation(rid, f, 'operands filtered by %s without a status test' % T.short(e['fn']),
                                      'operands are removed from the reduction by a predicate that never looks at '
                                      'their status: an operand that failed (empty, with status_ set) disappears and '
                                      'the result reports NoError', line=e.get('ln'), cfg=cfgname)
    chk.count(rid.lower() + '.operand_filters', n)


def main(chk, tier):
    import db as D
    configs = ['seq', 'par'] if tier == 'quick' else ['seq', 'par', 'seq-debug']
    tab = load_table()
    for cfgname in configs:
        db = D.load(cfgname)
        chk.configs.append(cfgname)
        chk.units = len(db.units)
        chk.functions_analysed += len(db.functions)
        seen_products.clear()
        rule_composition(chk, db, cfgname, tab, 'C03.1')
        rule_sharing(chk, db, cfgname, 'C03.2')
        rule_status(chk, db, cfgname, 'C03.3')
        rule_operand_order(chk, db, cfgname, tab, 'C03.4')
        rule_protocol(chk, db, cfgname, 'C03.5')
        rule_cache_identity(chk, db, cfgname, 'C03.6')
        rule_coindexed(chk, db, cfgname, 'C03.7')
        rule_dtor(chk, db, cfgname, 'C03.8')
        rule_no_silent_drop(chk, db, cfgname, 'C03.9')
    n = len(configs)
    chk.floor('c03.1.products', 6 * n)
    chk.floor('c03.4.reorder_events', 3 * n)
    chk.floor('c03.6.opnode_sites', 1 * n)
    chk.floor('c03.8.payload_uses', 2 * n)
    return chk.finish(
        'Operand-provenance lints over the CSG evaluator: transform composition order at the six product sites, '
        'transform-independence of what is stored into the shared operand vector, status tests in the three '
        'reductions, commutativity guards on every operand reordering, and the Boolean3 construct/Result '
        'perturbation protocol. Decides the structural clauses; does not decide that the rewrites (a-b)-c = a-(b+c), '
        'flattening and bbox-disjoint composition preserve the solid.',
        assumptions=['tables/c03.json names the operand access paths of each composition and reorder site'])
