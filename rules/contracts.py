"""Primitive contracts: the gen/kill effects that tables/c01.json attributes to the primitives of the escape
typestate (SortGeometry, CalculateBBox, MakeEmpty, RemoveUnreferencedVerts) are re-verified against the bodies
of those functions on every run, by a must-pass-through dataflow: on every path from the entry to a normal exit
(paths leaving through an `IsCancelled(ctx)` or an emptiness early-out excepted) the effect that justifies the
summary must occur.  A primitive whose body no longer has the effect makes the typestate's summary a lie, which
is reported as a violation of the property the bit belongs to."""
import cfg as C
import tree as T
from db import AnalysisBroken

IMPL = 'manifold::Manifold::Impl'


def this_member(n, name):
    n = T.strip(n)
    return n.get('k') == 'mem' and n.get('n') == name and T.strip(n['base']).get('k') == 'this'


def member_root(n):
    """name of the this-> member an lvalue expression is rooted at, else None"""
    n = T.strip(n)
    last = None
    while True:
        k = n.get('k')
        if k == 'mem':
            last = n
            n = T.strip(n['base'])
        elif k == 'sub':
            n = T.strip(n['base'])
        elif k == 'call' and n.get('op') == '[]' and n.get('recv') is not None:
            n = T.strip(n['recv'])
        else:
            break
    if n.get('k') == 'this' and last is not None:
        return last['n']
    return None


def assigns_member(ev, name):
    """ev assigns this->name (whole or a sub-object): returns the right-hand side (or True)"""
    if ev.get('k') == 'bin' and ev.get('op') == '=' and member_root(ev['l']) == name:
        return ev['r']
    if ev.get('k') == 'call' and ev.get('op') == '=' and ev.get('recv') is not None and \
            member_root(ev['recv']) == name:
        return ev['args'][0] if ev.get('args') else True
    return None


def calls_on_this(ev, method):
    return ev.get('k') == 'call' and T.short(ev.get('fn', '')) == method and \
        (ev.get('recv') is None or T.strip(ev['recv']).get('k') == 'this') and ev.get('mcls') == IMPL


def calls_on_member(ev, member, methods):
    return ev.get('k') == 'call' and T.short(ev.get('fn', '')) in methods and ev.get('recv') is not None and \
        member_root(ev['recv']) == member


def mentions(n, pred):
    return any(isinstance(x, dict) and pred(x) for x in T.walk(n))


# effect predicates -----------------------------------------------------------------------------------------
def eff_collider_rebuilt(ev):
    r = assigns_member(ev, 'collider_')
    return r is not None and r is not True and mentions(r, lambda x: x.get('k') == 'ctor' and
                                                        T.short(x.get('cls', '')) == 'Collider' and x.get('args'))


def eff_bbox_from_collider(ev):
    r = assigns_member(ev, 'bBox_')
    if r is not None and r is not True and mentions(r, lambda x: x.get('k') == 'call' and
                                                     T.short(x.get('fn', '')) == 'GetBoundingBox'):
        return True
    return calls_on_this(ev, 'CalculateBBox')


def eff_bbox_from_positions(part):
    def p(ev):
        if ev.get('k') == 'bin' and ev.get('op') == '=':
            l = T.strip(ev['l'])
            if l.get('k') == 'mem' and l.get('n') == part and this_member(l['base'], 'bBox_'):
                return mentions(ev['r'], lambda x: x.get('k') == 'mem' and x.get('n') == 'vertPos_')
        if ev.get('k') == 'call' and ev.get('op') == '=' and ev.get('recv') is not None:
            l = T.strip(ev['recv'])
            if l.get('k') == 'mem' and l.get('n') == part and this_member(l['base'], 'bBox_'):
                return any(mentions(a, lambda x: x.get('k') == 'mem' and x.get('n') == 'vertPos_')
                           for a in ev.get('args', []))
        return False
    return p


def eff_call(method):
    return lambda ev: calls_on_this(ev, method)


def eff_clear(member):
    return lambda ev: calls_on_member(ev, member, ('clear',)) or assigns_member(ev, member) is not None


def eff_nan_positions(ev):
    def is_nan(n):
        return mentions(n, lambda y: (y.get('k') == 'var' and y.get('n', '').upper() == 'NAN') or
                        (y.get('k') == 'call' and 'nan' in y.get('fn', '').lower()))
    for x in T.walk(ev):
        if not isinstance(x, dict):
            continue
        if x.get('k') == 'bin' and x.get('op') == '=' and member_root(x['l']) == 'vertPos_' and is_nan(x['r']):
            return True
        if x.get('k') == 'call' and x.get('op') == '=' and x.get('recv') is not None and \
                member_root(x['recv']) == 'vertPos_' and any(is_nan(a) for a in x.get('args', [])):
            return True
    return False


def exempt_cancel_or_empty(cond, true_edge):
    """edges that leave the normal path: IsCancelled(ctx) true, `x.size() == 0` / IsEmpty() true"""
    inner, neg = C.split_negation(cond)
    t = true_edge != neg
    if inner.get('k') == 'call' and T.short(inner.get('fn', '')) in ('IsCancelled', 'IsEmpty') and t:
        return True
    if inner.get('k') == 'bin' and inner.get('op') == '==' and t:
        l, r = T.strip_copy(inner['l']), T.strip_copy(inner['r'])
        for a, b in ((l, r), (r, l)):
            if a.get('k') == 'call' and T.short(a.get('fn', '')) == 'size' and b.get('k') == 'int' and b.get('v') == 0:
                return True
    return False


CONTRACTS = {
    # primitive: [(bit, description, [(effect name, predicate)], ordered?)]
    'manifold::Manifold::Impl::SortGeometry': [
        ('K', 'rebuilds collider_ from the sorted face boxes', [('collider_ = Collider(boxes, codes)', eff_collider_rebuilt)]),
        ('B', 'takes bBox_ from the rebuilt collider', [('bBox_ = collider_.GetBoundingBox()', eff_bbox_from_collider)]),
        ('T', 'compacts NaN verts and -1 faces', [('SortVerts()', eff_call('SortVerts')), ('SortFaces()', eff_call('SortFaces'))]),
    ],
    'manifold::Manifold::Impl::CalculateBBox': [
        ('B', 'recomputes both corners of bBox_ from vertPos_',
         [('bBox_.min = reduce(vertPos_)', eff_bbox_from_positions('min')),
          ('bBox_.max = reduce(vertPos_)', eff_bbox_from_positions('max'))]),
    ],
    'manifold::Manifold::Impl::MakeEmpty': [
        ('B', 'resets bBox_', [('bBox_ = Box()', lambda ev: assigns_member(ev, 'bBox_') is not None)]),
        ('K', 'resets collider_', [('collider_ = {}', lambda ev: assigns_member(ev, 'collider_') is not None)]),
        ('T', 'clears positions and halfedges', [('vertPos_.clear()', eff_clear('vertPos_')),
                                                ('halfedge_.clear()', eff_clear('halfedge_'))]),
    ],
    'manifold::Manifold::Impl::RemoveUnreferencedVerts': [
        ('S', 'NaN-marks unreferenced vertices', [('vertPos_[v] = NaN', None)]),   # inside a functor: see below
    ],
}


def verify_finite_gate(chk, db, cfgname, rid):
    """bit F: CalculateBBox turns a non-finite box into MakeEmpty"""
    fs = [f for f in db.fn('manifold::Manifold::Impl::CalculateBBox') if f.get('blocks')]
    if len(fs) != 1:
        raise AnalysisBroken('%s: CalculateBBox not found uniquely' % rid)
    fn = fs[0]
    g = C.Cfg(fn)
    ok = False
    empties = {b['id'] for b in fn['blocks'] if any(calls_on_this(ev, 'MakeEmpty') for ev in b['ev'])}
    for b in fn['blocks']:
        cond, _ = C.branch_cond(b)
        if cond is None or len(b['succ']) != 2:
            continue
        inner, neg = C.split_negation(cond)
        if not (inner.get('k') == 'call' and T.short(inner.get('fn', '')) == 'IsFinite' and
                inner.get('recv') is not None and member_root(inner['recv']) == 'bBox_'):
            continue
        # successor taken when the box is NOT finite
        nonfinite = b['succ'][0] if neg else b['succ'][1]
        # every path from there to the exit passes a MakeEmpty call
        seen = set()
        stack = [nonfinite]
        escaped = False
        while stack:
            x = stack.pop()
            if x in seen or x in empties or x is None or x < 0:
                continue
            seen.add(x)
            if x == g.exit:
                escaped = True
                break
            stack.extend(g.real_succ(x))
        ok = not escaped
    chk.count(rid.lower() + '.contract_clauses')
    chk.obligation(ok, {'primitive': 'CalculateBBox', 'bit': 'F', 'contract': 'a non-finite box becomes MakeEmpty',
                        'MakeEmpty under !bBox_.IsFinite()': ok})
    if not ok:
        chk.violation(rid, fn, 'CalculateBBox no longer rejects a non-finite box',
                      'the typestate relies on CalculateBBox to turn non-finite positions into an empty error; its '
                      'body has no MakeEmpty controlled by !bBox_.IsFinite()', cfg=cfgname)


def verify(chk, db, cfgname, rid, bits):
    """must-pass-through verification of the contracts whose bit is in `bits`"""
    if 'F' in bits:
        verify_finite_gate(chk, db, cfgname, rid)
    for prim, clauses in CONTRACTS.items():
        fs = [f for f in db.fn(prim) if f.get('blocks')]
        if len(fs) != 1:
            raise AnalysisBroken('%s: primitive %s not found uniquely (%d)' % (rid, prim, len(fs)))
        fn = fs[0]
        g = C.Cfg(fn)
        for bit, desc, effects in clauses:
            if bit not in bits:
                continue
            if effects[0][1] is None:
                # NaN marking happens in a functor / lambda the primitive launches
                ok = False
                stack = [fn]
                seen = set()
                while stack and not ok:
                    f = stack.pop()
                    if f['key'] in seen:
                        continue
                    seen.add(f['key'])
                    for b in f.get('blocks', []):
                        for ev in b['ev']:
                            if eff_nan_positions(ev):
                                ok = True
                            for x in T.walk(ev):
                                if isinstance(x, dict) and x.get('fk') in db.functions and \
                                        (x.get('k') == 'lambda' or x['fk'].startswith('manifold::Manifold::Impl::RemoveUnreferencedVerts')):
                                    stack.append(db.functions[x['fk']])
                chk.count(rid.lower() + '.contract_clauses')
                chk.obligation(ok, {'primitive': T.short(prim), 'bit': bit, 'contract': desc, 'effect found': ok})
                if not ok:
                    chk.violation(rid, fn, '%s no longer %s' % (T.short(prim), desc),
                                  'the typestate relies on %s to clear bit %s (%s) but its body has no such effect'
                                  % (T.short(prim), bit, desc), cfg=cfgname)
                continue
            names = [n for n, _ in effects]

            def transfer(block, st, effects=effects):
                st = set(st)
                for ev in block['ev']:
                    for n, p in effects:
                        if n not in st and p(ev):
                            st.add(n)
                return frozenset(st)

            def edge(block, k, succ, st):
                cond, _ = C.branch_cond(block)
                if cond is not None and len(block['succ']) == 2 and exempt_cancel_or_empty(cond, k == 0):
                    return None
                return st
            IN, OUT = C.forward(g, frozenset(), transfer, lambda a, b: a & b, edge)
            got = IN.get(g.exit)
            chk.count(rid.lower() + '.contract_clauses')
            if got is None:
                raise AnalysisBroken('%s: normal exit of %s unreachable' % (rid, prim))
            missing = [n for n in names if n not in got]
            chk.obligation(not missing, {'primitive': T.short(prim), 'bit': bit, 'contract': desc,
                                         'effects on every normal path': names, 'missing': missing})
            if missing:
                chk.violation(rid, fn, '%s no longer %s' % (T.short(prim), desc),
                              'the typestate relies on %s to clear bit %s (%s) but a normal path through it misses '
                              '%s: every caller that depends on the summary may let a stale or unfinished Impl escape'
                              % (T.short(prim), bit, desc, ', '.join(missing)), cfg=cfgname)
