"""C08 — MeshGL export / re-import is lossless (structural clauses): writer/reader field agreement and the
exporter's single-permutation rule (shared with C07)."""
import c07
from db import AnalysisBroken


def main(chk, tier):
    import db as D
    configs = ['seq', 'par'] if tier == 'quick' else ['seq', 'par', 'seq-debug', 'par-debug']
    tab = c07.load_table()
    for cfgname in configs:
        db = D.load(cfgname)
        chk.configs.append(cfgname)
        chk.units = len(db.units)
        chk.functions_analysed += len(db.functions)
        c07.rule_fields(chk, db, cfgname, tab, 'C08.1')
        c07.rule_perm(chk, db, cfgname, tab, 'C08.2')
        c07.rule_runs(chk, db, cfgname, 'C08.3')
        c07.rule_emission(chk, db, cfgname, 'C08.4')
        c07.rule_run_domain(chk, db, cfgname, 'C08.5')
    n = len(configs)
    chk.floor('c08.1.written_fields', 16 * n)
    chk.floor('c08.2.attribute_flows', 4 * n)
    return chk.finish(
        'Writer/reader agreement between the MeshGL exporter (GetMeshGLImpl) and importer (Impl(MeshGLP)) for both '
        'instantiations: every field the exporter fills is consumed by the importer (directly or via the MeshGLP '
        'accessors); the exporter moves all per-triangle/per-halfedge attributes (triVerts, faceID, tangents) by the '
        'same sorted triangle map; the run arrays stay parallel. Necessary for a lossless round trip; does not '
        'decide bit-equality of values, Morton re-sorting, float rounding or the OBJ text path.',
        assumptions=['field use is syntactic: a field read only to be discarded would count as read'])
