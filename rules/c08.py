"""C08 — MeshGL export / re-import is lossless (structural clauses): writer/reader field agreement and the
exporter's single-permutation rule (shared with C07)."""
import re
import c07
import tree as T
from db import AnalysisBroken

# Facts about C/C++ number formatting (IEEE double: 53-bit significand, 17 significant decimal digits suffice and
# are necessary; 13 hex digits after the point):  which (notation, precision) pairs reproduce every finite double.
KNOWN_CONSTANTS = {'std::numeric_limits<double>::max_digits10': 17, 'std::numeric_limits<double>::digits10': 15,
                   'DBL_DECIMAL_DIG': 17, 'DBL_DIG': 15}
HEX_PARSERS = {'strtod', 'std::strtod', 'std::stod', 'std::from_chars', 'sscanf', 'std::sscanf', 'strtold'}
SAMPLES = {
    'scientific': ['1.2345678901234567890e-07', '-9.0123455679012349000e+300', '0.0000000000000000000e+00'],
    'fixed': ['0.0000012345678901234', '-12.5000000000000000000'],
    'general': ['1.234567890123456789e-07', '-12.5', '0'],
    'hexfloat': ['0x1.3c0ca428c59fbp+0', '-0x1.0000000000000p-1022', '0x0.0000000000000p+0'],
}


def exact(notation, prec):
    """does (notation, precision) print every finite double so that it reads back bit-identically"""
    if notation == 'hexfloat':
        return prec is None or prec >= 13
    if prec is None:
        return False
    if notation == 'scientific':
        return prec >= 16          # 1 + prec significant digits
    if notation == 'general':
        return prec >= 17
    return False                   # fixed: significant digits depend on the magnitude


def const_int(n):
    n = T.strip_copy(n)
    if n.get('k') == 'int':
        return n['v']
    if n.get('k') == 'var' and n['n'] in KNOWN_CONSTANTS:
        return KNOWN_CONSTANTS[n['n']]
    return None


def fold_string(n, inits, depth=0):
    """constant-fold std::string concatenations of literals and (static) locals"""
    n = T.strip_copy(n)
    k = n.get('k')
    if k == 'str':
        return n['v']
    if k == 'var' and n['n'] in inits and depth < 8:
        return fold_string(inits[n['n']], inits, depth + 1)
    if k == 'call' and n.get('op') == '+':
        a, b = fold_string(n['args'][0], inits, depth + 1), fold_string(n['args'][1], inits, depth + 1)
        return None if a is None or b is None else a + b
    if k == 'ctor' and n.get('args'):
        return fold_string(n['args'][0], inits, depth + 1)
    return None


def rule_text(chk, db, cfgname):
    chk.rule('C08.6', 'OBJ text path: every number format the writer can select reproduces every finite double '
             '(hexfloat with >= 13 digits, scientific with precision >= 16, general with precision >= 17; never '
             'fixed), the reader\'s vertex and header grammar accepts each of those forms, and the reader\'s '
             'conversion handles hexfloat when the writer can emit it')
    ws = [f for f in db.functions.values() if f['name'].split('::<lambda')[0] == 'manifold::WriteOBJWithEpsilon'
          and f.get('blocks')]
    rs = [f for f in db.functions.values() if f['name'] == 'manifold::ReadOBJWithEpsilon' and f.get('blocks')]
    if not ws or len(rs) != 1:
        if cfgname.startswith('seq') or cfgname.startswith('par'):
            raise AnalysisBroken('C08.6: OBJ writer/reader not found')
    rd = rs[0]
    notations = []   # (notation, line)
    precisions = []
    printf_formats = []
    for f in ws:
        for b in f['blocks']:
            for e in b['ev']:
                if e.get('k') != 'call':
                    continue
                if e.get('op') == '<<' and e.get('args'):
                    a = T.strip_copy(e['args'][-1])
                    if a.get('k') == 'fn' and a['n'] in ('std::fixed', 'std::scientific', 'std::hexfloat',
                                                        'std::defaultfloat'):
                        notations.append(({'std::defaultfloat': 'general'}.get(a['n'], a['n'][5:]), e.get('ln')))
                if T.short(e.get('fn', '')) == 'setprecision':
                    precisions.append((const_int(e['args'][0]), e.get('ln')))
                if T.short(e.get('fn', '')) in ('snprintf', 'sprintf', 'printf', 'fprintf'):
                    for a in e['args']:
                        a = T.strip_copy(a)
                        if a.get('k') == 'str' and '%' in a['v']:
                            printf_formats.append((a['v'], e.get('ln')))
    if not precisions and not printf_formats:
        raise AnalysisBroken('C08.6: no number format found in the OBJ writer')
    forms = []   # (notation, precision, line, description)
    prec = min((p for p, _ in precisions if p is not None), default=None)
    if any(p is None for p, _ in precisions):
        prec = None
    if not notations:
        notations = [('general', precisions[0][1] if precisions else None)]
    for nt, ln in notations:
        forms.append((nt, prec, ln, 'stream << std::%s << setprecision(%s)' % (nt, prec)))
    for fmt, ln in printf_formats:
        for m in re.finditer(r'%[-+ #0]*\d*(?:\.(\d+))?(l?[aAeEfFgG])', fmt):
            conv = m.group(2)[-1].lower()
            p = int(m.group(1)) if m.group(1) else None
            nt = {'a': 'hexfloat', 'e': 'scientific', 'f': 'fixed', 'g': 'general'}[conv]
            if p is None and conv != 'a':
                p = 6
            forms.append((nt, p, ln, 'printf "%s"' % fmt))
    # reader grammar
    inits = {}
    for b in rd['blocks']:
        for e in b['ev']:
            if e.get('k') == 'decl':
                for v in e['vars']:
                    if v.get('init') is not None:
                        inits[v['n']] = v['init']
    patterns = {}
    for name, init in inits.items():
        i = T.strip_copy(init)
        if i.get('k') == 'ctor' and T.short(i.get('cls', '')) == 'basic_regex':
            s = fold_string(i['args'][0], inits)
            if s is None:
                raise AnalysisBroken('C08.6: regex %s is not a constant string' % name)
            patterns[name] = s
    vertex = [p for p in patterns.values() if p.startswith('^v')]
    header = [p for p in patterns.values() if p.startswith('^# ')]
    if len(vertex) != 1 or not header:
        raise AnalysisBroken('C08.6: vertex/header patterns of the OBJ reader not found')
    # conversion of the captured text
    conv_calls = set()
    for b in rd['blocks']:
        for e in b['ev']:
            if e.get('k') == 'call' and e.get('fk') and 'sub_match' in e['fk']:
                for g in db.fn(T.basename(e['fn'])):
                    for bb in g.get('blocks', []):
                        for ee in bb['ev']:
                            if ee.get('k') == 'call':
                                conv_calls.add(ee.get('fn', ''))
    # conversions that throw on values the writer can emit (std::stod & co. throw std::out_of_range when strtod
    # reports ERANGE, which glibc does for subnormal results)
    throwing = sorted(c for c in conv_calls if T.short(c) in ('stod', 'stof', 'stold'))
    chk.count('c08.6.formats')
    chk.obligation(not throwing, {'reader conversion calls': sorted(T.short(c) for c in conv_calls)[:8],
                                  'throwing conversions': throwing})
    if throwing:
        chk.violation('C08.6', rd, 'reader converts numbers with %s' % ','.join(T.short(c) for c in throwing),
                      'the OBJ reader converts coordinate text with %s, which throws std::out_of_range for values the '
                      'writer can emit (subnormal doubles make strtod report ERANGE): ReadOBJ terminates instead of '
                      'round-tripping the mesh' % ', '.join(throwing), cfg=cfgname)
    for nt, p, ln, desc in forms:
        chk.count('c08.6.formats')
        ex = exact(nt, p)
        accepted = all(re.match(vertex[0] + '$', 'v %s %s %s' % (s, s, s)) for s in SAMPLES[nt]) and \
            all(any(re.match(h + '$', h.split('(')[0].lstrip('^') + s) for s in SAMPLES[nt][:1]) for h in header)
        converted = nt != 'hexfloat' or bool(conv_calls & HEX_PARSERS)
        ok = ex and accepted and converted
        chk.obligation(ok, {'writer format': desc, 'line': ln, 'reproduces every double': ex,
                            'accepted by reader grammar': accepted, 'reader conversion handles it': converted})
        if not ex:
            chk.violation('C08.6', ws[0], 'inexact number format %s precision %s' % (nt, p),
                          '%s does not print enough significant digits for every finite double (%s): positions do not '
                          'round-trip exactly through WriteOBJ/ReadOBJ' %
                          (desc, 'fixed notation drops digits of small magnitudes' if nt == 'fixed' else
                           'precision too small'), line=ln, cfg=cfgname)
        if not accepted:
            chk.violation('C08.6', rd, 'reader grammar rejects %s numbers' % nt,
                          'the writer can emit %s numbers (%s) but the reader\'s vertex/header patterns do not match '
                          'them: such lines are skipped and the mesh comes back without them' % (nt, desc),
                          cfg=cfgname)
        if not converted:
            chk.violation('C08.6', rd, 'reader conversion cannot parse hexfloat',
                          'the writer can emit hexfloat numbers but the reader converts text with %s only; istream '
                          'extraction does not read hexfloat' % sorted(conv_calls)[:4], cfg=cfgname)


def main(chk, tier):
    import db as D
    configs = ['seq', 'par'] if tier == 'quick' else ['seq', 'par', 'seq-debug', 'par-debug']
    tab = c07.load_table()
    for cfgname in configs:
        db = D.load(cfgname)
        chk.configs.append(cfgname)
        chk.units = len(db.units)
        chk.functions_analysed += len(db.functions)
        c07.rule_fields(chk, db, cfgname, tab, 'C08.1')
        c07.rule_perm(chk, db, cfgname, tab, 'C08.2')
        c07.rule_runs(chk, db, cfgname, 'C08.3')
        c07.rule_emission(chk, db, cfgname, 'C08.4')
        c07.rule_run_domain(chk, db, cfgname, 'C08.5')
        rule_text(chk, db, cfgname)
    n = len(configs)
    chk.floor('c08.1.written_fields', 16 * n)
    chk.floor('c08.2.attribute_flows', 4 * n)
    chk.floor('c08.6.formats', 2 * n)
    return chk.finish(
        'Writer/reader agreement between the MeshGL exporter (GetMeshGLImpl) and importer (Impl(MeshGLP)) for both '
        'instantiations: every field the exporter fills is consumed by the importer (directly or via the MeshGLP '
        'accessors); the exporter moves all per-triangle/per-halfedge attributes (triVerts, faceID, tangents) by the '
        'same sorted triangle map; the run arrays stay parallel. Necessary for a lossless round trip; does not '
        'decide bit-equality of values, Morton re-sorting, float rounding. C08.6 decides the format-level necessary condition of the OBJ text path: the selectable number formats are exact for every double and the reader accepts what the writer emits.',
        assumptions=['field use is syntactic: a field read only to be discarded would count as read'])
