"""Program database: runs the mfx extractor over every translation unit of
/repo (with the real build's flags, both MANIFOLD_PAR configurations) and loads
the merged result.  No rule logic here."""
import concurrent.futures
import hashlib
import json
import os
import pickle
import re
import subprocess
import sys
import time

VERIF = os.path.dirname(os.path.dirname(os.path.abspath(__file__)))
REPO = os.environ.get('VERIF_REPO', '/repo')
MFX = os.path.join(VERIF, 'engine', 'mfx')
CACHE = os.path.join(VERIF, '.cache')

# configuration name -> extra flags
CONFIGS = {
    'seq': ['-DMANIFOLD_PAR=-1'],
    'par': ['-DMANIFOLD_PAR=1'],
    'seq-debug': ['-DMANIFOLD_PAR=-1', '-DMANIFOLD_DEBUG', '-DMANIFOLD_ASSERT'],
    'par-debug': ['-DMANIFOLD_PAR=1', '-DMANIFOLD_DEBUG', '-DMANIFOLD_ASSERT'],
}
SKIP_BODIES = ['include/manifold/linalg.h']


class AnalysisBroken(Exception):
    """The analysis could not be carried out (vanished anchor, parse error,
    zero-instance rule): exit 2, neither a pass nor a violation."""


def cmake_list(path, var):
    txt = open(path).read()
    m = re.search(r'set\(\s*' + var + r'\s+([^)]*)\)', txt)
    if not m:
        raise AnalysisBroken('cannot find %s in %s' % (var, path))
    return [w for w in m.group(1).split() if w.endswith('.cpp')]


def units(repo=None):
    """Translation units the real build compiles, re-read from CMake and
    compared with a glob so a new .cpp cannot be silently skipped."""
    repo = repo or REPO
    src = cmake_list(os.path.join(repo, 'src/CMakeLists.txt'), 'MANIFOLD_SRCS')
    on_disk = sorted(f for f in os.listdir(os.path.join(repo, 'src')) if f.endswith('.cpp'))
    # meshIO etc. may be optional; anything on disk but not in the list is
    # analysed as well (superset), anything listed but missing is an error.
    for f in src:
        if f not in on_disk:
            raise AnalysisBroken('src/%s listed in CMake but missing' % f)
    out = [('src/' + f) for f in sorted(set(src) | set(on_disk))]
    cdir = os.path.join(repo, 'bindings/c')
    ctxt = open(os.path.join(cdir, 'CMakeLists.txt')).read()
    clist = sorted(set(re.findall(r'^\s*([a-z_0-9]+\.cpp)\s*$', ctxt, re.M)))
    cdisk = sorted(f for f in os.listdir(cdir) if f.endswith('.cpp'))
    for f in clist:
        if f not in cdisk:
            raise AnalysisBroken('bindings/c/%s listed in CMake but missing' % f)
    out += [('bindings/c/' + f) for f in sorted(set(clist) | set(cdisk))]
    return out


def flags(repo, cfg):
    return ['-std=gnu++17', '-I%s/include' % repo, '-I%s/src' % repo,
            '-I%s/bindings/c/include' % repo, '-I%s/bindings/c' % repo,
            '-UNDEBUG', '-Wno-everything'] + CONFIGS[cfg]


def source_hash(repo):
    h = hashlib.sha256()
    for sub in ('src', 'include', 'bindings/c'):
        for root, dirs, files in os.walk(os.path.join(repo, sub)):
            dirs.sort()
            for f in sorted(files):
                if f.endswith(('.cpp', '.h', '.hpp', '.txt', '.inl')):
                    p = os.path.join(root, f)
                    h.update(os.path.relpath(p, repo).encode())
                    h.update(open(p, 'rb').read())
    h.update(open(MFX, 'rb').read())
    h.update(open(os.path.abspath(__file__), 'rb').read())
    return h.hexdigest()[:20]


def _run_unit(args):
    repo, cfg, unit, out = args
    cmd = [MFX, '--root=' + repo, '--out=' + out] + ['--skip=' + s for s in SKIP_BODIES] + \
          [os.path.join(repo, unit), '--'] + flags(repo, cfg)
    p = subprocess.run(cmd, stdout=subprocess.PIPE, stderr=subprocess.STDOUT, text=True)
    ok = p.returncode == 0 and os.path.exists(out) and os.path.getsize(out) > 0
    return unit, ok, p.stdout[-2000:]


class DB:
    def __init__(self, cfg, repo):
        self.cfg = cfg
        self.repo = repo
        self.functions = {}      # key -> fn
        self.by_name = {}        # qualified name -> [fn]
        self.classes = {}        # printed name -> class
        self.enums = {}
        self.vars = {}
        self.decls = {}
        self.types = []          # per TU type tables
        self.units = []
        self.children = {}       # fn key -> [lambda fn keys]

    def T(self, fn, node_or_idx):
        """type record of a node (or a raw type index) of function fn"""
        idx = node_or_idx if isinstance(node_or_idx, int) else node_or_idx.get('t', -1)
        if idx is None or idx < 0:
            return {'s': '', 'k': 'o'}
        return self.types[fn['tu']][idx]

    def fn(self, name):
        """all definitions with this qualified name (overloads, instantiations)"""
        return self.by_name.get(name, [])

    def one(self, name):
        l = self.fn(name)
        if len(l) != 1:
            raise AnalysisBroken('expected exactly one definition of %s in config %s, found %d'
                                 % (name, self.cfg, len(l)))
        return l[0]

    def lambdas_of(self, fn):
        return [self.functions[k] for k in self.children.get(fn['key'], [])]


def load(cfg='seq', repo=None, verbose=False):
    repo = repo or REPO
    if not os.path.exists(MFX):
        raise AnalysisBroken('extractor not built: run MANIFEST.setup_cmd (make -C engine)')
    key = source_hash(repo)
    croot = os.path.join(CACHE, repo.strip('/').replace('/', '_') or 'root')
    cdir = os.path.join(croot, key, cfg)
    pk = os.path.join(cdir, 'db.pickle')
    if os.path.exists(pk):
        with open(pk, 'rb') as f:
            return pickle.load(f)
    os.makedirs(cdir, exist_ok=True)
    # one extractor run per (sources, configuration): concurrent checks wait for the first one and then load its
    # pickle instead of parsing the same units twice (or tripping over each other's temporary files)
    import fcntl
    lock = open(os.path.join(cdir, '.lock'), 'w')
    fcntl.flock(lock, fcntl.LOCK_EX)
    try:
        if os.path.exists(pk):
            with open(pk, 'rb') as f:
                return pickle.load(f)
        return _extract(repo, cfg, cdir, pk, croot, key, verbose)
    finally:
        fcntl.flock(lock, fcntl.LOCK_UN)
        lock.close()


def _extract(repo, cfg, cdir, pk, croot, key, verbose):
    us = units(repo)
    jobs = [(repo, cfg, u, os.path.join(cdir, '%d.%s.json' % (os.getpid(), u.replace('/', '__')))) for u in us]
    t0 = time.time()
    with concurrent.futures.ThreadPoolExecutor(max_workers=int(os.environ.get('VERIF_JOBS', '16'))) as ex:
        res = list(ex.map(_run_unit, jobs))
    bad = [(u, out) for u, ok, out in res if not ok]
    if bad:
        raise AnalysisBroken('extractor failed on %s:\n%s' % (bad[0][0], bad[0][1]))
    db = DB(cfg, repo)
    db.units = us
    for tu, (_, _, u, out) in enumerate(jobs):
        with open(out) as f:
            d = json.load(f)
        os.unlink(out)
        db.types.append(d['types'])
        for fn in d['functions']:
            if fn['key'] in db.functions:
                continue
            fn['tu'] = tu
            db.functions[fn['key']] = fn
        for c in d['classes']:
            if c['name'] not in db.classes:
                c['tu'] = tu
                db.classes[c['name']] = c
        for e in d['enums']:
            db.enums.setdefault(e['name'], e)
        for v in d['vars']:
            if v['name'] not in db.vars:
                v['tu'] = tu
                db.vars[v['name']] = v
        for dd in d['decls']:
            if dd['name'] not in db.decls:
                dd['tu'] = tu
                db.decls[dd['name']] = dd
    for k, fn in db.functions.items():
        db.by_name.setdefault(fn['name'], []).append(fn)
        if fn.get('parent'):
            db.children.setdefault(fn['parent'], []).append(k)
    tmp = '%s.%d.tmp' % (pk, os.getpid())
    with open(tmp, 'wb') as f:
        pickle.dump(db, f, protocol=pickle.HIGHEST_PROTOCOL)
    os.replace(tmp, pk)
    if verbose:
        print('extracted %d units, %d functions (%s) in %.1fs' %
              (len(us), len(db.functions), cfg, time.time() - t0), file=sys.stderr)
    # keep the cache small: drop other source hashes
    for d in os.listdir(croot):
        if d != key:
            subprocess.run(['rm', '-rf', os.path.join(croot, d)])
    return db


if __name__ == '__main__':
    sys.path.insert(0, os.path.dirname(os.path.abspath(__file__)))
    import db as _db
    for c in sys.argv[1:] or ['seq', 'par']:
        d = _db.load(c, verbose=True)
        print(c, len(d.functions), 'functions', len(d.classes), 'classes')
