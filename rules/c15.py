"""C15 — cancellation is all-or-nothing; progress is monotone and ends at 1.

Rule 1  cancellation obligations (path-universal, interprocedural)
Rule 2  phase tables: number of donePhases credits on every success path equals kPhasesPer*
Rule 3  counter discipline: done* only fetch_add'ed, resets only in the two reset functions,
        numerators before denominators, reset sites not re-entered from eager loops
Rule 4  entry-time precedence of the cancel test in the three static factories
Rule 5  cancel branch of ToLeafNode poisons cache_ of every frame before returning
"""
import json
import os

import cfg as C
import tree as T
from db import AnalysisBroken, VERIF

CANCELLED_ENUM = 'manifold::Manifold::Error::Cancelled'
CLEAN, OPEN, CANC = 'clean', 'open', 'cancelled'


def is_ctx_type(t):
    return bool(t.get('ptr')) and t.get('r') == 'manifold::ExecutionContext::Impl'


def ctx_params(db, fn):
    return [i for i, p in enumerate(fn['params']) if is_ctx_type(db.T(fn, p['t']))]


def mentions_cancelled(node):
    for x in T.walk(node):
        if x.get('k') == 'enum' and x.get('n') == CANCELLED_ENUM:
            return True
    return False


def is_null(node):
    n = T.strip(node)
    return n.get('k') == 'nullptr' or (n.get('k') == 'int' and n.get('v') == 0)


class Analysis:
    def __init__(self, db, table):
        self.db = db
        self.table = table
        self.primitive = set(table['primitive_skippers'])
        self.transfer_to = table.get('obligation_transfer', {})
        # summaries
        self.may_skip = {}          # fn key -> bool
        self.always_cancelled = {}  # fn key -> bool (every return produces the Cancelled code)
        self.cancel_test = {}       # fn key -> ctx string: truthy result <=> cancelled
        self.results = {}           # fn key -> per-function result
        self.overriders = {}
        self.carriers = {}          # class -> ctor that leaves an object-carried obligation

    # ---- callee resolution -----------------------------------------------------
    def callees(self, call):
        """definitions a call event may reach (virtual calls: every overrider)"""
        fk = call.get('fk')
        out = []
        if fk and fk in self.db.functions:
            out.append(self.db.functions[fk])
        # std::make_shared<T>(args...) / make_unique<T>(args...) construct T(args...)
        if call.get('k') == 'call' and T.short(call.get('fn', '')) in ('make_shared', 'make_unique') and \
                call.get('fn', '').startswith('std::'):
            nargs = len(call.get('args', []))
            for c in self._ctors_for_make(call):
                if len(c['params']) == nargs or (len(c['params']) > nargs and
                                                 all('def' in p for p in c['params'][nargs:])):
                    out.append(c)
        if call.get('virt'):
            m = T.short(call.get('fn', ''))
            for f in self.db.functions.values():
                if f.get('virtual') and T.short(f['name']) == m and f['key'] != fk:
                    out.append(f)
        return out

    def _ctors_for_make(self, call):
        cls = call.get('_mk')
        if not cls:
            return []
        if not hasattr(self, '_ctx_ctors'):
            self._ctx_ctors = [f for f in self.db.functions.values()
                               if f.get('kind') == 'ctor' and ctx_params(self.db, f)]
        return [c for c in self._ctx_ctors if c['cls'] == cls]

    def _annotate_make(self, fns):
        for f in fns:
            for b in f['blocks']:
                for ev in b['ev']:
                    for x in T.walk(ev):
                        if x.get('k') == 'call' and x.get('fn') in ('std::make_shared', 'std::make_unique') \
                                and '_mk' not in x:
                            ta = self.db.T(f, x).get('targs') or ['']
                            x['_mk'] = ta[0]

    def ctx_args(self, fn, call):
        """[(ctx string, callee param index)] for arguments passed at ctx-typed
        parameters of the callee"""
        res = []
        cs = self.callees(call)
        args = call.get('args', [])
        if cs:
            callee = cs[0]
            for i in ctx_params(self.db, callee):
                if i < len(args):
                    a = args[i]
                    if a.get('k') == 'defarg':
                        continue
                    if is_null(a):
                        continue
                    res.append((T.pstr(a), i))
        return res

    # ---- per-function dataflow ---------------------------------------------------
    def own_ctx_names(self, fn):
        """ctx strings that denote the function's own incoming context: ctx
        parameters, and (constructors) fields initialised from one"""
        names = {fn['params'][i]['n'] for i in ctx_params(self.db, fn)}
        if fn.get('kind') == 'ctor':
            for b in fn.get('blocks', []):
                for ev in b['ev']:
                    if ev.get('k') == 'init' and 'e' in ev:
                        e = T.strip(ev['e'])
                        if e.get('k') == 'var' and e.get('n') in names and e.get('s') == 'p':
                            names.add('this->' + ev['n'])
        return names

    def analyse(self, fn):
        g = C.Cfg(fn)
        if not g.ok():
            return None
        db = self.db
        # variables holding the result of a cancel-test wrapper (phase())
        testvars = {}
        for _, ev in g.events():
            if ev.get('k') == 'decl':
                for v in ev['vars']:
                    init = v.get('init')
                    if not init:
                        continue
                    n = T.strip(init)
                    if n.get('k') == 'call':
                        for c in self.callees(n):
                            if c['key'] in self.cancel_test:
                                testvars[(v['n'], v['d'])] = self.cancel_test[c['key']]

        def cond_ctx(cond):
            """(ctx string, negated) if the condition is a cancel test, else None"""
            inner, neg = C.split_negation(cond)
            if T.is_call_to(inner, 'manifold::IsCancelled') and inner.get('args'):
                return T.pstr(inner['args'][0]), neg
            # optional<Impl> c = phase(); if (c) ...
            r = inner
            if r.get('k') == 'call' and r.get('recv') is not None and \
                    T.short(r.get('fn', '')) in ('operator bool', 'has_value'):
                r = T.strip(r['recv'])
            if r.get('k') == 'var' and (r['n'], r.get('d')) in testvars:
                return testvars[(r['n'], r.get('d'))], neg
            if r.get('k') == 'call':
                for c in self.callees(r):
                    if c['key'] in self.cancel_test:
                        return self.cancel_test[c['key']], neg
            return None

        events_info = {}

        def transfer(block, state):
            st = dict(state)
            for ev in block['ev']:
                k = ev.get('k')
                top_calls = []
                if k == 'call':
                    top_calls = [ev]
                elif k == 'ctor' and ev.get('fk'):
                    top_calls = [ev]
                # discharge: the Cancelled status code is produced on a branch where
                # cancellation is known
                if k == 'return' and 'e' in ev:
                    r = T.root_of(T.strip_copy(ev['e']))
                    if r is not None and r.get('k') == 'var' and (r['n'], r.get('d')) in testvars:
                        cstr = testvars[(r['n'], r.get('d'))]
                        if cstr in st and CANC in st[cstr]:
                            st[cstr] = frozenset(x for x in st[cstr] if x != CANC) | {CLEAN}
                if k in ('call', 'ctor', 'bin', 'return', 'decl', 'init') and mentions_cancelled(ev):
                    if k == 'bin' and ev.get('op') in ('==', '!='):
                        pass
                    else:
                        for c in list(st):
                            if st[c] and CANC in st[c]:
                                st[c] = frozenset(x for x in st[c] if x != CANC) | {CLEAN}
                for call in top_calls:
                    cs = self.callees(call)
                    # always-cancelled helper (e.g. the `cancelled()` lambda)
                    if any(self.always_cancelled.get(c['key']) for c in cs) and cs and \
                            all(self.always_cancelled.get(c['key']) for c in cs):
                        for c in list(st):
                            if CANC in st[c]:
                                st[c] = frozenset(x for x in st[c] if x != CANC) | {CLEAN}
                    # obligation transfer table (Boolean3 ctor -> Result)
                    name = T.basename(call.get('fn', '') or call.get('cls', ''))
                    skip = False
                    bn = T.basename(call.get('fn', '')) if call.get('fn') else None
                    if bn in self.primitive:
                        skip = True
                    elif any(self.may_skip.get(c['key']) for c in cs):
                        skip = True
                    if skip:
                        for cstr, _ in self.ctx_args(fn, call):
                            cur = st.get(cstr, frozenset([CLEAN]))
                            st[cstr] = frozenset(OPEN if x == CLEAN else x for x in cur)
                            events_info.setdefault(cstr, []).append(
                                (ev.get('ln'), T.basename(call.get('fn') or call.get('cls', '?'))))
                # lambdas passed as arguments / invoked directly: replay summary
                if k in ('call', 'ctor'):
                    lam_keys = []
                    for a in ev.get('args', []):
                        a = T.strip(a)
                        if a.get('k') == 'lambda':
                            lam_keys.append(a['fk'])
                    if ev.get('fk') and ev['fk'] in self.db.functions and \
                            self.db.functions[ev['fk']].get('kind') == 'lambda':
                        lam_keys.append(ev['fk'])
                    for lk in lam_keys:
                        r = self.results.get(lk)
                        if r and r['open_ctx']:
                            for cstr in r['open_ctx']:
                                cur = st.get(cstr, frozenset([CLEAN]))
                                st[cstr] = frozenset(OPEN if x == CLEAN else x for x in cur)
                                events_info.setdefault(cstr, []).append(
                                    (ev.get('ln'), 'lambda ' + lk.split('::')[-1]))
            return st

        def edge(block, k, succ, st):
            cond, kind = C.branch_cond(block)
            if cond is None or len(block['succ']) != 2:
                return st
            cc = cond_ctx(cond)
            if cc is None:
                return st
            cstr, neg = cc
            taken_true = (k == 0) != neg
            st = dict(st)
            st[cstr] = frozenset([CANC]) if taken_true else frozenset([CLEAN])
            return st

        def join(a, b):
            keys = set(a) | set(b)
            out = {}
            for c in keys:
                out[c] = a.get(c, frozenset([CLEAN])) | b.get(c, frozenset([CLEAN]))
            return out

        IN, OUT = C.forward(g, {}, transfer, join, edge)
        exit_state = IN.get(g.exit, {})
        open_ctx = {}
        for cstr, s in exit_state.items():
            bad = s & {OPEN, CANC}
            if bad:
                open_ctx[cstr] = sorted(bad)
        # always-cancelled summary: must-dataflow "Cancelled code mentioned"
        def t2(block, seen):
            for ev in block['ev']:
                if mentions_cancelled(ev):
                    return True
            return seen
        IN2, _ = C.forward(g, False, t2, lambda a, b: a and b)
        always = bool(IN2.get(g.exit, False))
        # cancel-test wrapper summary: exactly the IsCancelled branches decide
        # between returning nullopt/false and a Cancelled value
        ctest = None
        tests = []
        for b in g.rpo():
            cond, _ = C.branch_cond(g.blocks[b])
            if cond is not None:
                cc = cond_ctx(cond)
                if cc:
                    tests.append(cc[0])
        rets = [ev for _, ev in g.events() if ev.get('k') == 'return' and 'e' in ev]
        if tests and rets and len(set(tests)) == 1:
            canc = [r for r in rets if self._ret_cancelled(g, r)]
            nul = [r for r in rets if self._ret_null(r)]
            if canc and nul and len(canc) + len(nul) == len(rets):
                ctest = tests[0]
        return {'open_ctx': open_ctx, 'always_cancelled': always, 'cancel_test': ctest,
                'info': events_info, 'exit_state': exit_state}

    def _ret_null(self, r):
        for x in T.walk(r):
            if x.get('k') == 'var' and x.get('n') in ('std::nullopt',):
                return True
            if x.get('k') == 'bool' and x.get('v') is False:
                return True
        return False

    def _ret_cancelled(self, g, r):
        # the returned variable had the Cancelled code assigned in the same block,
        # or the expression itself mentions it
        if mentions_cancelled(r):
            return True
        for b in g.blocks.values():
            if r in b['ev']:
                for ev in b['ev']:
                    if mentions_cancelled(ev):
                        return True
        return False

    # ---- fixed point -----------------------------------------------------------------
    def run(self):
        fns = [f for f in self.db.functions.values() if self.relevant(f)]
        self.fns = fns
        self._annotate_make(fns)
        for it in range(12):
            changed = False
            for f in fns:
                r = self.analyse(f)
                if r is None:
                    continue
                self.results[f['key']] = r
                has_ctx_in = bool(ctx_params(self.db, f)) or f.get('kind') == 'lambda'
                ms = bool(r['open_ctx']) and has_ctx_in
                # only obligations on the function's own incoming ctx move to callers
                if ms and f.get('kind') != 'lambda':
                    pn = self.own_ctx_names(f)
                    ms = any(c in pn for c in r['open_ctx'])
                # a constructor that stores the ctx in a field and may skip work leaves
                # the obligation on the *object* (rule 1b), not on the caller's outputs
                if ms and f.get('kind') == 'ctor' and any(c.startswith('this->') for c in r['open_ctx']):
                    self.carriers[f['cls']] = f
                    ms = False
                    r['carried'] = True
                if self.may_skip.get(f['key'], False) != ms:
                    self.may_skip[f['key']] = ms
                    changed = True
                if self.always_cancelled.get(f['key'], False) != r['always_cancelled']:
                    self.always_cancelled[f['key']] = r['always_cancelled']
                    changed = True
                if r['cancel_test'] and self.cancel_test.get(f['key']) != r['cancel_test']:
                    self.cancel_test[f['key']] = r['cancel_test']
                    changed = True
            if not changed:
                break
        else:
            raise AnalysisBroken('C15 summaries did not reach a fixed point')
        return fns

    def relevant(self, f):
        if f['file'].startswith('src/parallel.h') or f['file'].startswith('include/manifold/'):
            return False
        if not f.get('blocks'):
            return False
        return self._mentions_ctx(f)

    def _mentions_ctx(self, f):
        c = f.get('_c15ctx')
        if c is None:
            c = False
            if ctx_params(self.db, f):
                c = True
            else:
                for b in f['blocks']:
                    for ev in b['ev']:
                        for x in T.walk(ev):
                            if x.get('k') in ('var', 'mem', 'call') and 't' in x and \
                                    is_ctx_type(self.db.T(f, x)):
                                c = True
                                break
                            if x.get('k') == 'enum' and x.get('n') == CANCELLED_ENUM:
                                c = True
                                break
                        if c:
                            break
                    if c:
                        break
            f['_c15ctx'] = c
        return c


def load_table():
    return json.load(open(os.path.join(VERIF, 'rules', 'tables', 'c15.json')))


def rule1(chk, db, cfgname):
    table = load_table()
    an = Analysis(db, table)
    fns = an.run()
    chk.rule('C15.1', 'no normal return with an open cancellation obligation: after a ctx-aware '
             'loop/callee that may skip work, every path to a root exit passes an IsCancelled(ctx) '
             'test whose cancelled branch produces Error::Cancelled')
    nskip = 0
    for f in fns:
        r = an.results.get(f['key'])
        if r is None:
            continue
        if f.get('kind') == 'dtor':
            continue   # a destructor produces no result that could be released
        escal = an.may_skip.get(f['key'], False) or r.get('carried', False)
        for cstr, sites in r['info'].items():
            for (ln, what) in sites:
                nskip += 1
                ok = cstr not in r['open_ctx']
                chk.obligation(ok or escal, {'function': f['name'], 'line': ln, 'skipper': what,
                                             'ctx': cstr,
                                             'discharged': 'locally' if ok else
                                             ('by every caller (summary MaySkip)' if an.may_skip.get(f['key'])
                                              else ('object-carried, rule C15.1b' if escal else 'NO'))})
        if r['open_ctx'] and not escal:
            for cstr, bad in r['open_ctx'].items():
                sites = r['info'].get(cstr, [])
                chain = origin_chain(an, f, cstr)
                chk.violation('C15.1', f, 'ctx=%s' % cstr,
                              'normal return reachable with cancellation obligation %s '
                              '(skippable work: %s) and no Error::Cancelled produced; obligation originates in: %s' %
                              ('/'.join(bad), ', '.join('%s@%s' % (w, l) for l, w in sites[:6]) or
                               'silent return on the cancelled branch', ' -> '.join(chain)),
                              cfg=cfgname, path=chain)
    chk.count('c15.1.skippable_calls', nskip)
    chk.count('c15.1.functions', len(fns))
    chk.count('c15.1.may_skip_functions', sum(1 for v in an.may_skip.values() if v))
    rule1b(chk, db, an, cfgname)
    return an


def origin_chain(an, f, cstr, depth=0, seen=None):
    """follow the open obligation down the MaySkip callees to the function where it is created and
    never tested"""
    seen = seen or set()
    name = '%s:%s' % (T.basename(f['name']), f['line'])
    if depth > 12 or f['key'] in seen:
        return [name]
    seen.add(f['key'])
    r = an.results.get(f['key']) or {}
    own = an.own_ctx_names(f)
    for b in f['blocks']:
        for ev in b['ev']:
            if ev.get('k') not in ('call', 'ctor'):
                continue
            for c in an.callees(ev):
                if an.may_skip.get(c['key']) and c.get('blocks'):
                    rc = an.results.get(c['key']) or {}
                    for c2 in rc.get('open_ctx', {}):
                        return [name] + origin_chain(an, c, c2, depth + 1, seen)
    return [name]


def rule1b(chk, db, an, cfgname):
    """object-carried obligations: a constructor that stores the ctx and may skip
    work leaves partially written fields; every read of such a field anywhere
    must be dominated by a cancel test on the stored ctx (not-cancelled edge)."""
    chk.rule('C15.1b', 'fields written by a ctx-storing constructor that may skip work are read '
             'only after a dominating cancel test on the stored context')
    for cls, ctor in an.carriers.items():
        names = an.own_ctx_names(ctor)
        fields = [n[6:] for n in names if n.startswith('this->')]
        tainted = set()
        for b in ctor['blocks']:
            for ev in b['ev']:
                tgt = None
                if ev.get('k') == 'call' and ev.get('op') == '=' and ev.get('recv') is not None:
                    tgt, rhs = ev['recv'], ev.get('args', [])
                elif ev.get('k') == 'bin' and ev.get('op') == '=':
                    tgt, rhs = ev['l'], [ev['r']]
                if tgt is None:
                    continue
                tgt = T.strip(tgt)
                if tgt.get('k') == 'mem' and T.strip(tgt['base']).get('k') == 'this':
                    for r in rhs:
                        for c in T.calls(r):
                            if an.ctx_args(ctor, c):
                                tainted.add(tgt['n'])
        chk.count('c15.1b.carrier_classes')
        chk.count('c15.1b.tainted_fields', len(tainted))
        if not tainted or not fields:
            raise AnalysisBroken('C15.1b: carrier %s has no tainted fields / ctx field' % cls)
        ctxstr = 'this->' + fields[0]
        for f in db.functions.values():
            if not f.get('blocks') or f['key'] == ctor['key']:
                continue
            reads = []
            for b in f['blocks']:
                for ev in b['ev']:
                    if ev.get('k') == 'mem' and ev.get('cls') == cls and ev['n'] in tainted:
                        reads.append((b['id'], ev))
            if not reads:
                continue
            if f.get('cls') != cls and not (f.get('parent') and cls in f['parent']):
                for _, ev in reads:
                    chk.violation('C15.1b', f, '%s::%s' % (cls, ev['n']),
                                  'partially written field read outside the class (no cancel gate possible)',
                                  line=ev.get('ln'), cfg=cfgname)
                continue
            # must-dataflow: "cancel tested false on this->ctx_"
            g = C.Cfg(f)
            r = an.results.get(f['key'])
            tested_in = _tested_blocks(an, f, g, ctxstr)
            for bid, ev in reads:
                ok = tested_in.get(bid, False)
                chk.obligation(ok, {'function': f['name'], 'line': ev.get('ln'), 'field': ev['n'],
                                    'gate': 'dominating cancel test on ' + ctxstr if ok else 'MISSING'})
                if not ok:
                    chk.violation('C15.1b', f, '%s::%s' % (cls, ev['n']),
                                  'field possibly left partial by a cancelled constructor is read with no '
                                  'dominating cancel test on %s' % ctxstr, line=ev.get('ln'), cfg=cfgname)


def _tested_blocks(an, f, g, ctxstr):
    """block id -> True if on every path to the block's entry a cancel test on
    ctxstr was passed on its not-cancelled edge"""
    # reuse the branch recogniser of the main analysis via a tiny re-run
    res = {}
    testvars = {}
    for _, ev in g.events():
        if ev.get('k') == 'decl':
            for v in ev['vars']:
                init = v.get('init')
                if init:
                    n = T.strip(init)
                    if n.get('k') == 'call':
                        for c in an.callees(n):
                            if c['key'] in an.cancel_test:
                                testvars[(v['n'], v['d'])] = an.cancel_test[c['key']]

    def cond_ctx(cond):
        inner, neg = C.split_negation(cond)
        if T.is_call_to(inner, 'manifold::IsCancelled') and inner.get('args'):
            return T.pstr(inner['args'][0]), neg
        r = inner
        if r.get('k') == 'call' and r.get('recv') is not None and \
                T.short(r.get('fn', '')) in ('operator bool', 'has_value'):
            r = T.strip(r['recv'])
        if r.get('k') == 'var' and (r['n'], r.get('d')) in testvars:
            return testvars[(r['n'], r.get('d'))], neg
        return None

    def edge(block, k, succ, st):
        cond, _ = C.branch_cond(block)
        if cond is None or len(block['succ']) != 2:
            return st
        cc = cond_ctx(cond)
        if cc and cc[0] == ctxstr:
            taken_true = (k == 0) != cc[1]
            if not taken_true:
                return True
        return st
    IN, _ = C.forward(g, False, lambda b, s: s, lambda a, b: a and b, edge)
    return IN


# ---------------------------------------------------------------------------------------
# Rule 2: phase tables
# ---------------------------------------------------------------------------------------
COUNTER_CLS = 'manifold::ExecutionContext::Impl'
DONE = ('donePhases', 'doneBooleans')
TOTAL = ('totalPhases', 'totalBooleans')


def counter_op(ev):
    """(field, op, argtree) if ev is a member call on one of the progress counters"""
    if ev.get('k') != 'call' or ev.get('recv') is None:
        return None
    r = T.strip(ev['recv'])
    if r.get('k') == 'mem' and r.get('cls') == COUNTER_CLS and r['n'] in DONE + TOTAL:
        op = T.short(ev.get('fn', ''))
        return r['n'], op, (ev.get('args') or [None])[0], T.pstr(r['base'])
    return None


def const_val(db, node):
    n = T.strip(node) if node else None
    if n is None:
        return None
    if n.get('k') == 'int':
        return n['v']
    if n.get('k') == 'var' and n.get('s') == 'g':
        v = db.vars.get(n['n'])
        if v and 'val' in v:
            return v['val']
    if n.get('k') == 'bin' and n['op'] in '+-*':
        a, b = const_val(db, n['l']), const_val(db, n['r'])
        if a is None or b is None:
            return None
        return {'+': a + b, '-': a - b, '*': a * b}[n['op']]
    return None


def kconst(db, name):
    v = db.vars.get('manifold::' + name)
    if not v or 'val' not in v:
        raise AnalysisBroken('constant %s not found' % name)
    return v['val']


def credit_paths(db, an, fn, credit_of_event):
    """min/max number of credits on non-cancelled paths to each exit predecessor.
    Returns list of (label, line, lo, hi) and the list of credit lines; raises if a
    credit sits inside a loop."""
    g = C.Cfg(fn)
    ctxnames = set(an.own_ctx_names(fn)) | {'this->ctx_', 'this->ctx'}
    loops = g.in_loop()
    back = set(g.back_edges())
    # testvars for phase()
    testvars = {}
    for _, ev in g.events():
        if ev.get('k') == 'decl':
            for v in ev['vars']:
                init = v.get('init')
                if init and T.strip(init).get('k') == 'call':
                    for c in an.callees(T.strip(init)):
                        if c['key'] in an.cancel_test:
                            testvars[(v['n'], v['d'])] = True

    def prune(block, k):
        """True if edge k of block is not taken on a non-cancelled, ctx!=null run"""
        cond, _ = C.branch_cond(block)
        if cond is None or len(block['succ']) != 2:
            return False
        inner, neg = C.split_negation(cond)
        is_true_edge = (k == 0)
        if T.is_call_to(inner, 'manifold::IsCancelled'):
            cancelled_edge = is_true_edge != neg
            return cancelled_edge
        r = inner
        if r.get('k') == 'call' and r.get('recv') is not None and \
                T.short(r.get('fn', '')) in ('operator bool', 'has_value'):
            r = T.strip(r['recv'])
        if r.get('k') == 'var' and (r['n'], r.get('d')) in testvars:
            return is_true_edge != neg
        # if (ctx) ... : progress accounting is about runs with a context
        if T.pstr(inner) in ctxnames and inner.get('k') in ('var', 'mem'):
            nonnull_edge = is_true_edge != neg
            return not nonnull_edge
        return False

    lo = {g.entry: 0}
    hi = {g.entry: 0}
    credit_lines = []
    exits = []
    for b in g.rpo():
        if b not in lo:
            continue
        blk = g.blocks[b]
        n = 0
        for ev in blk['ev']:
            c = credit_of_event(ev)
            if c:
                n += c
                credit_lines.append(ev.get('ln'))
                if b in loops:
                    raise_loop = True
                    chk_loop.append((fn['name'], ev.get('ln')))
        l, h = lo[b] + n, hi[b] + n
        succs = blk['succ']
        if g.exit in [s for s in succs if s is not None]:
            label = 'end'
            line = None
            for ev in blk['ev']:
                if ev.get('k') == 'call' and T.short(ev.get('fn', '')) == 'MakeEmpty':
                    label = 'MakeEmpty(%s)' % T.short(T.pstr(ev['args'][0])) if ev.get('args') else 'MakeEmpty'
                if ev.get('k') == 'return':
                    line = ev.get('ln')
                    if label == 'end':
                        label = 'return'
            exits.append((label, line, l, h, b))
        for k, s in enumerate(succs):
            if s is None or s < 0 or (b, s) in back or s == g.exit:
                continue
            if prune(blk, k):
                continue
            if s in lo:
                lo[s] = min(lo[s], l)
                hi[s] = max(hi[s], h)
            else:
                lo[s], hi[s] = l, h
    return exits, credit_lines


chk_loop = []


def rule2(chk, db, an, cfgname):
    chk.rule('C15.2', 'on every non-cancelled path of a phase-accounted function the number of '
             'donePhases credits equals its kPhasesPer* constant (Progress ends at 1, never exceeds 1); '
             'no credit inside a loop')
    kFrom = kconst(db, 'kPhasesPerFromMesh')
    kSmooth = kconst(db, 'kPhasesPerSmooth')
    kLevel = kconst(db, 'kPhasesPerLevelSet')
    kBool = kconst(db, 'kPhasesPerBoolean')

    def plain_credit(ev):
        co = counter_op(ev)
        if co and co[0] == 'donePhases' and co[1] == 'fetch_add':
            v = const_val(db, co[2])
            if v is None:
                return None
            return v
        return 0

    targets = []
    for f in db.fn('manifold::Manifold::Impl::Impl'):
        if ctx_params(db, f):
            targets.append((f, kFrom, 'kPhasesPerFromMesh'))
    for f in db.fn('manifold::Manifold::Impl::CreateTangents'):
        if ctx_params(db, f):
            targets.append((f, kSmooth - kFrom, 'kPhasesPerSmooth-kPhasesPerFromMesh'))
    for f in db.fn('manifold::Manifold::Impl::CreateLevelSet'):
        targets.append((f, kLevel, 'kPhasesPerLevelSet'))
    if len(targets) < 4:
        raise AnalysisBroken('C15.2: phase-accounted functions not found (%d)' % len(targets))
    del chk_loop[:]
    for f, K, kname in targets:
        exits, lines = credit_paths(db, an, f, plain_credit)
        chk.count('c15.2.credit_sites', len(set(lines)))
        chk.count('c15.2.functions')
        for label, line, lo, hi, b in exits:
            if 'Cancelled' in label:
                continue
            ok = (lo == K and hi == K)
            chk.obligation(ok, {'function': f['name'], 'exit': label, 'line': line,
                                'credits': [lo, hi], 'required': K, 'constant': kname})
            if not ok:
                if label in ('end', 'return') and hi != K:
                    chk.violation('C15.2', f, 'full-path credits != %s' % kname,
                                  'success path credits between %d and %d phases, constant is %d' % (lo, hi, K),
                                  line=line, cfg=cfgname)
                elif label in ('end', 'return'):
                    chk.violation('C15.2', f, 'early return credits < %s' % kname,
                                  'a non-cancelled return credits %d..%d of %d phases' % (lo, hi, K),
                                  line=line, cfg=cfgname)
                else:
                    chk.violation('C15.2', f, 'early exit %s credits < %s' % (label, kname),
                                  'non-cancelled exit through %s credits %d..%d of %d phases: Progress() '
                                  'stays below 1 after an uncancelled completion' % (label, lo, hi, K),
                                  line=line, cfg=cfgname)
    for name, ln in chk_loop:
        chk.violation('C15.2', name, 'credit inside loop', 'donePhases credit at line %s lies on a cycle' % ln,
                      line=ln, cfg=cfgname)
    # Boolean3::Result: phase() sites
    res = db.one('manifold::Boolean3::Result')
    phase_keys = set()
    for l in db.lambdas_of(res):
        n = 0
        for b in l['blocks']:
            for ev in b['ev']:
                if plain_credit(ev):
                    n += 1
        if n:
            phase_keys.add(l['key'])
    if len(phase_keys) != 1:
        raise AnalysisBroken('C15.2: expected exactly one crediting lambda in Boolean3::Result')

    def phase_credit(ev):
        if ev.get('k') == 'call' and ev.get('fk') in phase_keys:
            return 1
        return 0
    exits, lines = credit_paths(db, an, res, phase_credit)
    chk.count('c15.2.phase_sites', len(set(lines)))
    mx = max(h for (_, _, _, h, _) in exits)
    full = [e for e in exits if e[3] == mx]
    ok = mx == kBool and all(e[2] == kBool for e in full)
    chk.obligation(ok, {'function': res['name'], 'phase() sites on the full path': mx, 'required': kBool})
    if not ok:
        chk.violation('C15.2', res, 'phase() sites != kPhasesPerBoolean',
                      'full path passes %d phase() sites, kPhasesPerBoolean is %d' % (mx, kBool), cfg=cfgname)
    # PhaseBalance: a local whose destructor tops up to kPhasesPerBoolean is destroyed at every exit
    topup = None
    for f in db.functions.values():
        if f.get('kind') == 'dtor' and f['name'].startswith(res['name']):
            for b in f['blocks']:
                for ev in b['ev']:
                    co = counter_op(ev)
                    if co and co[0] == 'donePhases' and co[1] == 'fetch_add':
                        a = T.strip(co[2])
                        if a.get('k') == 'bin' and a['op'] == '-' and const_val(db, a['l']) == kBool:
                            topup = f
    chk.obligation(topup is not None, {'function': res['name'], 'top-up destructor': topup['name'] if topup else None})
    if topup is None:
        chk.violation('C15.2', res, 'PhaseBalance top-up', 'no destructor tops donePhases up to kPhasesPerBoolean '
                      'on early exits', cfg=cfgname)
    else:
        cls = topup.get('cls')
        g = C.Cfg(res)
        for label, line, lo, hi, b in exits:
            has = any(ev.get('k') == 'dtor' and db.T(res, ev).get('r') == cls for ev in g.blocks[b]['ev'])
            if hi < kBool:
                chk.obligation(has, {'function': res['name'], 'early exit line': line, 'credits': [lo, hi],
                                     'topped up by': cls if has else 'NOTHING'})
                if not has:
                    chk.violation('C15.2', res, 'early exit without top-up',
                                  'exit at line %s credits %d..%d phases and no PhaseBalance is destroyed there'
                                  % (line, lo, hi), line=line, cfg=cfgname)
        # published counter incremented wherever a credit is given
        for k in phase_keys:
            l = db.functions[k]
            inc = any(ev.get('k') == 'un' and ev.get('op') == '++' and 'published' in T.pstr(ev['e'])
                      for b in l['blocks'] for ev in b['ev'])
            chk.obligation(inc, {'function': l['name'], 'published++ next to credit': inc})
            if not inc:
                chk.violation('C15.2', l, 'published not incremented', 'phase() credits donePhases without '
                              'incrementing PhaseBalance::published: top-up would over-credit', cfg=cfgname)


# ---------------------------------------------------------------------------------------
# Rule 3: counter discipline
# ---------------------------------------------------------------------------------------
def rule3(chk, db, an, cfgname, table):
    chk.rule('C15.3', 'done* counters only fetch_add positive amounts; stores only in the reset functions, '
             'numerators before denominators; at most one reset per evaluation root and none inside loops')
    reset_fns = set(table['reset_functions'])
    resetters = {}
    for f in db.functions.values():
        if not f.get('blocks'):
            continue
        stores = []
        for b in f['blocks']:
            for ev in b['ev']:
                co = counter_op(ev)
                if not co:
                    continue
                fld, op, arg, base = co
                chk.count('c15.3.counter_ops')
                if op == 'load':
                    continue
                if op == 'fetch_add' and fld in DONE:
                    v = const_val(db, arg)
                    ok = v is not None and v > 0
                    why = 'constant %s' % v
                    if not ok:
                        # non-constant amounts: must be guarded positive
                        ok, why = _guarded_positive(db, f, b, arg)
                    if not ok:
                        for r in table.get('reviewed_amounts', []):
                            if r['function'] == f['name'] and r['amount'] == T.pstr(arg):
                                ok, why = True, 'reviewed: ' + r['reason']
                                chk.count('c15.3.reviewed_amounts')
                    chk.obligation(ok, {'function': f['name'], 'line': ev.get('ln'),
                                        'op': '%s.fetch_add' % fld, 'amount': T.pstr(arg), 'positive': why})
                    if not ok:
                        chk.violation('C15.3', f, '%s.fetch_add(%s)' % (fld, T.pstr(arg)),
                                      'progress numerator may be advanced by a non-positive amount',
                                      line=ev.get('ln'), cfg=cfgname)
                    continue
                if op == 'store':
                    stores.append((fld, ev))
                    ok = f['name'] in reset_fns
                    chk.obligation(ok, {'function': f['name'], 'line': ev.get('ln'), 'op': fld + '.store',
                                        'allowed': ok})
                    if not ok:
                        chk.violation('C15.3', f, '%s.store' % fld, 'progress counter overwritten outside the '
                                      'reset functions', line=ev.get('ln'), cfg=cfgname)
                    continue
                chk.violation('C15.3', f, '%s.%s' % (fld, op), 'unexpected operation on a progress counter',
                              line=ev.get('ln'), cfg=cfgname)
        if stores:
            resetters[f['key']] = f
            order = [fld for fld, _ in stores]
            first_total = min([i for i, x in enumerate(order) if x in TOTAL] or [len(order)])
            last_done = max([i for i, x in enumerate(order) if x in DONE] or [-1])
            ok = last_done < first_total and last_done >= 0
            chk.obligation(ok, {'function': f['name'], 'store order': order})
            if not ok:
                chk.violation('C15.3', f, 'store order', 'denominator stored before numerator reset: an observer '
                              'can read Progress() > 1 (%s)' % order, cfg=cfgname)
    if len(resetters) < 2:
        raise AnalysisBroken('C15.3: reset functions not found')
    for name in reset_fns:
        if not any(f['name'] == name for f in resetters.values()):
            raise AnalysisBroken('C15.3: table entry %s is not a resetter any more' % name)
    # resets per root: summary ResetsParam(fn) = calls a resetter with its own ctx parameter
    resets_param = {k: True for k in resetters}

    def reset_calls(f):
        out = []
        for b in f['blocks']:
            for ev in b['ev']:
                if ev.get('k') not in ('call', 'ctor'):
                    continue
                hits = [c for c in an.callees(ev) if resets_param.get(c['key'])]
                lam = []
                for a in ev.get('args', []):
                    a = T.strip(a)
                    if a.get('k') == 'lambda' and resets_param.get(a['fk']):
                        lam.append(a['fk'])
                if hits:
                    cargs = an.ctx_args(f, ev)
                    if cargs:
                        out.append((b['id'], ev, cargs[0][0]))
                    elif any(c.get('kind') == 'lambda' for c in hits):
                        # ctx-capturing local lambda invoked directly
                        out.append((b['id'], ev, 'ctx'))
                elif lam:
                    out.append((b['id'], ev, 'ctx'))
        return out
    changed = True
    cand = [f for f in db.functions.values() if f.get('blocks') and an._mentions_ctx(f)]
    while changed:
        changed = False
        for f in cand:
            if resets_param.get(f['key']):
                continue
            own = an.own_ctx_names(f)
            if f.get('kind') == 'lambda':
                own = own | {'ctx'}
            for _, ev, cstr in reset_calls(f):
                if cstr in own:
                    resets_param[f['key']] = True
                    changed = True
                    break
    nroots = 0
    for f in cand:
        if f['key'] in resetters:
            continue
        rc = reset_calls(f)
        if not rc:
            continue
        own = an.own_ctx_names(f)
        g = C.Cfg(f)
        loops = g.in_loop()
        per_ctx = {}
        for bid, ev, cstr in rc:
            per_ctx.setdefault(cstr, []).append((bid, ev))
        for cstr, sites in per_ctx.items():
            is_root = cstr not in own and f.get('kind') != 'lambda'
            inloop = [ev.get('ln') for bid, ev in sites if bid in loops]
            if is_root:
                nroots += 1
            chk.count('c15.3.reset_call_sites', len(sites))
            if inloop:
                chk.obligation(False, {'function': f['name'], 'reset inside loop at lines': inloop})
                chk.violation('C15.3', f, '%d reset sites in loops ctx=%s' % (len(inloop), cstr),
                              'progress reset site reached repeatedly inside a loop (lines %s): Progress() '
                              'drops during one evaluation' % inloop, line=inloop[0], cfg=cfgname)
            if is_root:
                # max number of reset calls on one path (DAG, back edges ignored)
                cnt = {}
                for bid, _ in sites:
                    cnt[bid] = cnt.get(bid, 0) + 1
                best = {g.entry: cnt.get(g.entry, 0)}
                back = set(g.back_edges())
                for b in g.rpo():
                    if b not in best:
                        continue
                    for s in g.real_succ(b):
                        if (b, s) in back:
                            continue
                        v = best[b] + cnt.get(s, 0)
                        if v > best.get(s, -1):
                            best[s] = v
                mx = max(best.values())
                ok = mx <= 1
                chk.obligation(ok, {'root': f['name'], 'ctx': cstr, 'max resets on one path': mx,
                                    'lines': [ev.get('ln') for _, ev in sites]})
                if not ok:
                    chk.violation('C15.3', f, '%d resets on one path ctx=%s' % (mx, cstr),
                                  '%d progress resets on one path of one evaluation (lines %s): Progress() '
                                  'decreases' % (mx, [ev.get('ln') for _, ev in sites]),
                                  line=sites[0][1].get('ln'), cfg=cfgname)
    chk.count('c15.3.roots', nroots)


def _guarded_positive(db, f, blk, arg):
    """amount is K - x under a dominating x < K test, or a product/variable the
    enclosing branch tests > 0"""
    g = C.Cfg(f)
    dom = g.dominators().get(blk['id'], set())
    a = T.strip(arg)
    want = set()
    if a.get('k') == 'bin' and a['op'] == '-':
        want.add((T.pstr(a['r']), '<', T.pstr(a['l'])))
    names = {v['n'] for v in T.vars_in(a)}
    for d in dom:
        cond, _ = C.branch_cond(g.blocks[d])
        if cond is None:
            continue
        c, neg = C.split_negation(cond)
        if c.get('k') == 'bin' and c['op'] in ('<', '>', '>=', '<='):
            l, r = T.pstr(c['l']), T.pstr(c['r'])
            # which successor leads to blk?
            succ = g.blocks[d]['succ']
            true_side = succ[0] is not None and (succ[0] == blk['id'] or succ[0] in dom or
                                                 blk['id'] in _reach(g, succ[0], avoid=succ[1]))
            if neg:
                true_side = not true_side
            if not true_side:
                continue
            if (l, c['op'], r) in want:
                return True, 'guarded by %s %s %s' % (l, c['op'], r)
            if c['op'] == '>' and const_val(db, c['r']) is not None and const_val(db, c['r']) >= 0 and \
                    any(n == l for n in names):
                return True, 'guarded by %s > %s' % (l, r)
    return False, 'no dominating guard'


def _reach(g, start, avoid=None):
    seen = set()
    st = [start]
    while st:
        x = st.pop()
        if x in seen or x == avoid or x is None or x < 0:
            continue
        seen.add(x)
        st.extend(g.real_succ(x))
    return seen


# ---------------------------------------------------------------------------------------
# Rule 4: entry-time precedence in the static factories;  Rule 5: poisoned caches
# ---------------------------------------------------------------------------------------
def rule4(chk, db, an, cfgname):
    chk.rule('C15.4', 'in the three static-factory bodies the IsCancelled(ctx) test is the first branch: '
             'a Cancel() before the call wins over empty/malformed input')
    targets = [f for f in db.fn('manifold::Manifold::Impl::Impl') if ctx_params(db, f)]
    targets += db.fn('manifold::MakeSmoothImpl')
    targets += db.fn('manifold::Manifold::Impl::CreateLevelSet')
    if len(targets) < 5:
        raise AnalysisBroken('C15.4: static factory bodies not found (%d)' % len(targets))
    for f in targets:
        g = C.Cfg(f)
        own = an.own_ctx_names(f)
        b = g.entry
        ok = False
        why = 'no branch found'
        seen = set()
        while b is not None and b not in seen:
            seen.add(b)
            blk = g.blocks[b]
            cond, _ = C.branch_cond(blk)
            if cond is not None:
                inner, neg = C.split_negation(cond)
                if T.is_call_to(inner, 'manifold::IsCancelled') and T.pstr(inner['args'][0]) in own:
                    ok, why = True, 'first branch is IsCancelled(%s)' % T.pstr(inner['args'][0])
                else:
                    why = 'first branch tests %s' % T.pstr(cond)[:80]
                break
            # no calls that could return/throw on malformed input before the test
            ss = g.real_succ(b)
            if len(ss) != 1:
                break
            b = ss[0]
        # and the cancelled edge produces Cancelled (rule 1 covers that); here also require
        # that no return precedes the test
        chk.obligation(ok, {'function': f['name'], 'line': f['line'], 'entry test': why})
        if not ok:
            chk.violation('C15.4', f, 'entry cancel test', 'the first decision of the factory body is not the '
                          'cancel test (%s)' % why, cfg=cfgname)
    chk.count('c15.4.factories', len(targets))


def rule5(chk, db, an, cfgname):
    chk.rule('C15.5', 'on the cancelled branch of CsgOpNode::ToLeafNode every stack frame\'s op_node->cache_ '
             'and this->cache_ are assigned before the return')
    f = db.one('manifold::CsgOpNode::ToLeafNode')
    g = C.Cfg(f)
    found = False
    for b in g.rpo():
        blk = g.blocks[b]
        cond, _ = C.branch_cond(blk)
        if cond is None:
            continue
        inner, neg = C.split_negation(cond)
        if not T.is_call_to(inner, 'manifold::IsCancelled'):
            continue
        found = True
        tgt = blk['succ'][1 if neg else 0]
        # blocks reachable from the cancelled edge without passing the test block again
        region = _reach(g, tgt, avoid=b)

        def writes(ev):
            if ev.get('k') == 'call' and ev.get('op') == '=' and ev.get('recv') is not None:
                r = T.strip(ev['recv'])
                if r.get('k') == 'mem' and r['n'] == 'cache_':
                    return T.pstr(r)
            return None
        # must-pass: write to this->cache_ on every path from tgt to exit
        def tr(block, st):
            for ev in block['ev']:
                if writes(ev) == 'this->cache_':
                    return True
            return st
        sub = C.Cfg(f)
        sub.entry = tgt
        sub._rpo = None
        IN, _ = C.forward(sub, False, tr, lambda a, c: a and c)
        ok_this = bool(IN.get(g.exit, False))
        loops = g.in_loop()
        ok_frames = any(writes(ev) and writes(ev) != 'this->cache_' and 'op_node' in writes(ev) and x in loops
                        for x in region for ev in g.blocks[x]['ev'])
        # a frame whose node already has a result must keep it ("already evaluated operands are
        # untouched"): each such write is control-dependent on the same cache_ being null
        dom = g.dominators()
        for x in region:
            for ev in g.blocks[x]['ev']:
                w = writes(ev)
                if not w or w == 'this->cache_':
                    continue
                guarded = False
                for d in dom.get(x, ()):
                    if d == x or d not in region:
                        continue
                    cond, _ = C.branch_cond(g.blocks[d])
                    if cond is not None and w in T.pstr(cond):
                        guarded = True
                chk.obligation(guarded, {'function': f['name'], 'line': ev.get('ln'), 'write': w,
                                         'only when still null': guarded})
                if not guarded:
                    chk.violation('C15.5', f, 'overwrites %s' % w.replace('->', '.'),
                                  'the cancel branch assigns %s without testing that it is still null: an '
                                  'operand that was already evaluated is replaced by a Cancelled leaf' % w,
                                  line=ev.get('ln'), cfg=cfgname)
        rets_ok = True
        chk.obligation(ok_this, {'function': f['name'], 'line': blk['term']['ln'], 'this->cache_ poisoned': ok_this})
        chk.obligation(ok_frames, {'function': f['name'], 'line': blk['term']['ln'],
                                   'every frame->op_node->cache_ poisoned in a loop': ok_frames})
        if not ok_this:
            chk.violation('C15.5', f, 'this->cache_ not poisoned', 'cancelled branch can return without assigning '
                          'cache_', line=blk['term']['ln'], cfg=cfgname)
        if not ok_frames:
            chk.violation('C15.5', f, 'frame caches not poisoned', 'cancelled branch does not assign '
                          'frame->op_node->cache_ for the frames on the stack', line=blk['term']['ln'], cfg=cfgname)
    if not found:
        raise AnalysisBroken('C15.5: no IsCancelled branch in CsgOpNode::ToLeafNode')
    chk.count('c15.5.cancel_branches', 1)


def rule6(chk, db, cfgname):
    chk.rule('C15.6', 'a reader that loads both a done* counter and the matching total* counter loads the total '
             '(denominator) first: the writer resets numerators before denominators, so this order can only ever '
             'under-report, never yield Progress() > 1')
    import re
    n = 0
    for f in db.functions.values():
        if not f.get('blocks') or not f['file'].startswith(('src/', 'include/')):
            continue
        loads = []
        for b in f['blocks']:
            for e in b['ev']:
                if e.get('k') == 'call' and T.short(e.get('fn', '')) == 'load' and e.get('recv') is not None:
                    r = T.strip(e['recv'])
                    if r.get('k') == 'mem':
                        m = re.match(r'(done|total)(\w+)$', r['n'])
                        if m:
                            loads.append((b['id'], e.get('i', 0), m.group(1), m.group(2), e.get('ln')))
        sufs = {s for (_, _, k, s, _) in loads if k == 'done'} & {s for (_, _, k, s, _) in loads if k == 'total'}
        if not sufs:
            continue
        g = C.Cfg(f)
        dom = g.dominators()
        for suf in sorted(sufs):
            for (b, i, k, s, ln) in loads:
                if k != 'done' or s != suf:
                    continue
                n += 1
                ok = any(k2 == 'total' and s2 == suf and ((b2 == b and i2 < i) or (b2 != b and b2 in dom.get(b, ())))
                         for (b2, i2, k2, s2, _) in loads)
                chk.obligation(ok, {'function': f['name'][:70], 'line': ln, 'load': 'done' + suf,
                                    'total%s loaded before' % suf: ok})
                if not ok:
                    chk.violation('C15.6', f, 'done%s loaded before total%s' % (suf, suf),
                                  'the numerator is read before the denominator: if the counters are reset for a '
                                  'smaller evaluation between the two loads the reader combines the old numerator with '
                                  'the new denominator and Progress() exceeds 1', line=ln, cfg=cfgname)
    chk.count('c15.6.ratio_readers', n)


def main(chk, tier):
    import db as D
    configs = ['seq', 'par'] if tier == 'quick' else ['seq', 'par', 'seq-debug', 'par-debug']
    table = load_table()
    for cfgname in configs:
        db = D.load(cfgname)
        chk.configs.append(cfgname)
        chk.units = len(db.units)
        chk.functions_analysed += len(db.functions)
        an = rule1(chk, db, cfgname)
        rule2(chk, db, an, cfgname)
        rule3(chk, db, an, cfgname, table)
        rule4(chk, db, an, cfgname)
        rule5(chk, db, an, cfgname)
        rule6(chk, db, cfgname)
    n = len(configs)
    chk.floor('c15.1.skippable_calls', 80 * n)
    chk.floor('c15.1.may_skip_functions', 35 * n)
    chk.floor('c15.1b.tainted_fields', 4 * n)
    chk.floor('c15.2.credit_sites', 12 * n)
    chk.floor('c15.2.phase_sites', 8 * n)
    chk.floor('c15.3.counter_ops', 15 * n)
    chk.floor('c15.3.roots', 8 * n)
    chk.floor('c15.4.factories', 5 * n)
    chk.floor('c15.6.ratio_readers', n)
    return chk.finish(
        'Path-universal static analysis of the cancellation/progress protocol over the CFGs of every '
        'function that mentions an ExecutionContext::Impl*: (1) obligation dataflow "work may have been '
        'skipped" -> must be followed by an IsCancelled test whose cancelled branch produces '
        'Error::Cancelled before any root returns; (1b) fields left partial by a ctx-storing constructor '
        'are read only behind a cancel gate; (2) min/max phase-credit counting per exit against kPhasesPer*; '
        '(3) progress-counter operation discipline and reset reachability; (4) entry-time cancel precedence '
        'in the static factories; (5) cache poisoning on the evaluator\'s cancel branch. Decides the structural '
        'clause (no path releases partial data / credits the wrong amount); does not decide bit-equality of '
        'the non-cancelled result or latency.',
        assumptions=['cancel flag is monotone (never cleared): ExecutionContext has no reset of cancel',
                     'user callbacks (std::function) do not touch the context',
                     'ctx identity is syntactic (same access path) within one function'])
