"""Helpers over the expression trees emitted by mfx."""

CHILD_KEYS = ('base', 'recv', 'e', 'l', 'r', 'c', 'a', 'b', 'idx', 'init', 'callee')
LIST_KEYS = ('args', 'ch', 'place', 'inits')


def children(n):
    for k in CHILD_KEYS:
        v = n.get(k)
        if isinstance(v, dict):
            yield v
    for k in LIST_KEYS:
        v = n.get(k)
        if isinstance(v, list):
            for x in v:
                if isinstance(x, dict):
                    yield x
    if n.get('k') == 'decl':
        for v in n.get('vars', []):
            if isinstance(v.get('init'), dict):
                yield v['init']


def walk(n):
    """pre-order over a tree"""
    stack = [n]
    while stack:
        x = stack.pop()
        yield x
        stack.extend(reversed(list(children(x))))


def strip(n):
    """skip casts / default-arg wrappers / single-argument conversions"""
    while True:
        k = n.get('k')
        if k == 'cast' and 'e' in n:
            n = n['e']
        elif k == 'defarg':
            n = n['e']
        else:
            return n


def strip_copy(n):
    """strip casts and copy/move constructions (value passes through unchanged)"""
    while True:
        n = strip(n)
        if n.get('k') == 'ctor' and (n.get('copy') or n.get('move')) and len(n.get('args', [])) == 1:
            n = n['args'][0]
        else:
            return n


def short(fn):
    """last component of a qualified name, template arguments removed"""
    depth = 0
    out = []
    for ch in fn:
        if ch == '<':
            depth += 1
        elif ch == '>':
            depth -= 1
        elif depth == 0:
            out.append(ch)
    s = ''.join(out)
    return s.split('::')[-1]


def basename(fn):
    """qualified name with template arguments removed"""
    depth = 0
    out = []
    i = 0
    while i < len(fn):
        ch = fn[i]
        # keep operator< / operator<= / operator<< / operator-> intact
        if fn.startswith('operator', i):
            j = i + 8
            while j < len(fn) and fn[j] in '<>=!-+*/&|^~[]()%,':
                j += 1
            if depth == 0:
                out.append(fn[i:j])
            i = j
            continue
        if ch == '<':
            depth += 1
        elif ch == '>':
            depth -= 1
        elif depth == 0:
            out.append(ch)
        i += 1
    return ''.join(out)


SMART_GET = ('get',)


def pstr(n):
    """normalised access-path / expression string"""
    if n is None:
        return '?'
    k = n.get('k')
    if k == 'var':
        return n['n']
    if k == 'this':
        return 'this'
    if k == 'mem':
        return pstr(n['base']) + ('->' if n.get('arrow') else '.') + n['n']
    if k == 'memfn':
        return pstr(n['base']) + '.' + n['n']
    if k in ('cast', 'defarg'):
        return pstr(n.get('e'))
    if k == 'un':
        op = n['op']
        if n.get('post'):
            return pstr(n['e']) + op
        return op + pstr(n['e'])
    if k == 'bin':
        return '(' + pstr(n['l']) + ' ' + n['op'] + ' ' + pstr(n['r']) + ')'
    if k == 'sub':
        return pstr(n['base']) + '[' + pstr(n['idx']) + ']'
    if k == 'call':
        op = n.get('op')
        recv = n.get('recv')
        args = n.get('args', [])
        if op == '->' and recv is not None:
            return pstr(recv)
        if op == '*' and recv is not None and not args:
            return '*' + pstr(recv)
        if op == '[]' and recv is not None:
            return pstr(recv) + '[' + ','.join(pstr(a) for a in args) + ']'
        name = short(n.get('fn', '?'))
        if recv is not None:
            return pstr(recv) + ('->' if n.get('arrow') else '.') + name + '(' + ','.join(pstr(a) for a in args) + ')'
        return name + '(' + ','.join(pstr(a) for a in args) + ')'
    if k == 'ctor':
        return short(n.get('cls', '?')) + '{' + ','.join(pstr(a) for a in n.get('args', [])) + '}'
    if k in ('int', 'flt', 'bool'):
        return str(n.get('v'))
    if k == 'nullptr':
        return 'nullptr'
    if k == 'enum':
        return n['n']
    if k == 'fn':
        return n['n']
    if k == 'str':
        return '"%s"' % n.get('v', '')
    if k == 'lambda':
        return '<lambda>'
    if k == 'cond':
        return '(' + pstr(n['c']) + ' ? ' + pstr(n['a']) + ' : ' + pstr(n['b']) + ')'
    if k == 'ilist':
        return '{' + ','.join(pstr(a) for a in n.get('args', [])) + '}'
    if k == 'new':
        return 'new'
    if k == 'zero':
        return '0'
    if k == 'sizeof':
        return 'sizeof'
    return '<' + str(n.get('c', k)) + '>'


def root_of(n):
    """the root variable / this of an access path, or None"""
    while True:
        k = n.get('k')
        if k in ('var', 'this'):
            return n
        if k == 'mem' or k == 'memfn' or k == 'sub':
            n = n['base']
        elif k in ('cast', 'defarg'):
            n = n['e']
        elif k == 'un' and n['op'] in ('*', '&'):
            n = n['e']
        elif k == 'call' and n.get('recv') is not None and (
                n.get('op') in ('->', '*', '[]') or short(n.get('fn', '')) in
                ('get', 'view', 'cview', 'begin', 'end', 'data', 'front', 'back', 'at')):
            n = n['recv']
        else:
            return None


def calls(n):
    for x in walk(n):
        if x.get('k') == 'call':
            yield x


def vars_in(n):
    for x in walk(n):
        if x.get('k') == 'var':
            yield x


def is_call_to(n, *names):
    """n is a call whose callee's template-free qualified name is one of names"""
    return n.get('k') == 'call' and basename(n.get('fn', '')) in names


def arg_of(call, pname):
    """argument bound to the callee parameter called pname, or None"""
    pn = call.get('pn', [])
    args = call.get('args', [])
    off = 0
    # for operator calls implemented as methods the receiver is not in args
    for i, p in enumerate(pn):
        if p == pname and i - off < len(args):
            return args[i - off]
    return None
