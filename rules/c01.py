"""C01 — every returned Manifold is a closed oriented 2-manifold or an empty error (structural clause):
escape typestate T (tombstones compacted), S (stranded verts removed), G (import gate passed)."""
import escape
import contracts
from db import AnalysisBroken

BITS = 'TSGF'


def rule_zero_division(chk, db, cfgname):
    """C01.3 (all numbers are finite): x / d where d is a local initialised to 0 and only ever accumulated into can be
    0 / 0 = NaN unless a test of d dominates the division"""
    import cfg as C
    import tree as T
    n = 0
    for f in db.functions.values():
        if not f.get('blocks') or not f['file'].startswith('src/'):
            continue
        acc = {}
        for b in f['blocks']:
            for e in b['ev']:
                if e.get('k') == 'decl':
                    for v in e['vars']:
                        i = v.get('init')
                        if i is None:
                            continue
                        i0 = T.strip_copy(i)
                        t = db.T(f, v['t'])
                        if i0.get('k') in ('int', 'flt') and i0.get('v') in (0, 0.0) and t.get('k') in ('f', 'i') \
                                and not t.get('ref'):
                            acc[v['n']] = True
        if not acc:
            continue
        for b in f['blocks']:
            for e in b['ev']:
                if e.get('k') == 'bin' and e.get('op') == '=':
                    l = T.strip(e['l'])
                    if l.get('k') == 'var' and l['n'] in acc:
                        acc[l['n']] = False      # plainly assigned: not a pure accumulator
        acc = {k for k, v in acc.items() if v}
        if not acc:
            continue
        # keep only accumulators that can stay at zero although their loop runs: every increment is conditional
        # (a `c ? 0 : 1` amount, or an increment control-dependent on a branch inside the loop)
        g0 = C.Cfg(f)
        loops0 = g0.loops()
        cond_only = set()
        for name in acc:
            incs = []
            for b in f['blocks']:
                for e in b['ev']:
                    tgt = None
                    amount = None
                    if e.get('k') == 'bin' and e.get('op') in ('+=', '-=') and T.strip(e['l']).get('k') == 'var':
                        tgt, amount = T.strip(e['l'])['n'], e['r']
                    elif e.get('k') == 'un' and e.get('op') in ('++', '--') and T.strip(e['e']).get('k') == 'var':
                        tgt = T.strip(e['e'])['n']
                    if tgt != name:
                        continue
                    conditional = amount is not None and any(isinstance(y, dict) and y.get('k') == 'cond'
                                                             for y in T.walk(amount))
                    if not conditional:
                        body = None
                        for h, blocks in loops0.items():
                            if b['id'] in blocks and (body is None or len(blocks) < len(body)):
                                body, head = blocks, h
                        if body is not None:
                            conditional = any(d in body and d != head for d, k in g0.control_deps(b['id']))
                    incs.append(conditional)
            if incs and all(incs):
                cond_only.add(name)
        acc = cond_only
        if not acc:
            continue
        g = None
        for b in f['blocks']:
            for e in b['ev']:
                if not (e.get('k') == 'bin' and e.get('op') in ('/', '/=')):
                    continue
                r = T.strip_copy(e['r'])
                if not (r.get('k') == 'var' and r['n'] in acc and db.T(f, e).get('k') == 'f'):
                    continue
                n += 1
                g = g or C.Cfg(f)
                dom = g.dominators().get(b['id'], set())
                guarded = False
                for d in dom:
                    if d == b['id']:
                        continue
                    c, _ = C.branch_cond(g.blocks[d])
                    if c is not None and any(isinstance(y, dict) and y.get('k') == 'var' and y.get('n') == r['n']
                                             for y in T.walk(c)):
                        guarded = True
                chk.obligation(guarded, {'function': f['name'], 'line': e.get('ln'), 'division': T.pstr(e)[:50],
                                         'accumulator': r['n'], 'guarded by a test of it': guarded})
                if not guarded:
                    chk.violation('C01.3', f, 'division by zero-initialised accumulator %s' % r['n'],
                                  '%s divides by %s, a local that starts at 0 and is only conditionally incremented, '
                                  'with no test of it before the division: 0/0 gives NaN, which flows into the mesh '
                                  'data' % (T.pstr(e)[:50], r['n']), line=e.get('ln'), cfg=cfgname)
    chk.count('c01.3.accumulator_divisions', n)


def rule_dedupe_fixpoint(chk, db, cfgname):
    """C01.4: DedupeEdges repeats scan-and-split until a scan finds nothing: DedupeEdge adds triangles whose outer edges
    can coincide with existing ones, so one pass is not enough (every directed edge must occur once)"""
    import cfg as C
    import tree as T
    fs = [f for f in db.fn('manifold::Manifold::Impl::DedupeEdges') if f.get('blocks')]
    if len(fs) != 1:
        from db import AnalysisBroken
        raise AnalysisBroken('C01.4: DedupeEdges not found uniquely')
    f = fs[0]
    g = C.Cfg(f)
    loops = g.loops()
    n = 0
    for b in f['blocks']:
        for e in b['ev']:
            if e.get('k') == 'call' and T.short(e.get('fn', '')) == 'DedupeEdge':
                n += 1
                depth = sum(1 for h, body in loops.items() if b['id'] in body)
                ok = depth >= 2
                chk.obligation(ok, {'function': f['name'], 'line': e.get('ln'), 'loop nesting of the split': depth,
                                    'inside a rescanning loop': ok})
                if not ok:
                    chk.violation('C01.4', f, 'DedupeEdges splits in a single pass',
                                  'DedupeEdge is applied to the edges found by ONE scan only (loop nesting %d): the '
                                  'triangles a split adds can duplicate an existing directed edge, which is then never '
                                  'found, and the result is not a 2-manifold' % depth, line=e.get('ln'), cfg=cfgname)
    chk.count('c01.4.split_sites', n)


def main(chk, tier):
    import db as D
    configs = ['seq', 'par'] if tier == 'quick' else ['seq', 'par', 'seq-debug', 'par-debug']
    tab = escape.load_table()
    chk.rule('C01.1', 'no Impl escapes (wrapped into a CsgLeafNode/Manifold, returned by value from a reduction, or as '
             'the result of a public Impl constructor) while it may still contain tombstones (halfedge -1 / NaN '
             'vertex), stranded unreferenced vertices, or halfedges paired from caller data that were never put '
             'through the IsManifold gate')
    chk.rule('C01.2', 'the effects the typestate attributes to its primitives hold in their bodies: SortGeometry '
             'calls SortVerts and SortFaces on every normal path, MakeEmpty clears positions and halfedges, '
             'RemoveUnreferencedVerts NaN-marks vertices, CalculateBBox turns a non-finite box into MakeEmpty')
    chk.rule('C01.3', 'no floating-point division by a zero-initialised local that is only accumulated by conditional '
             'increments (so it can stay 0 although its loop runs) without a dominating test of that local (0/0 = NaN would enter the mesh data; "all numbers are finite")')
    chk.rule('C01.4', 'DedupeEdges iterates scan-and-split to a fixpoint: the DedupeEdge call sits inside a rescanning '
             'loop (a split can create a new coincident edge)')
    for cfgname in configs:
        db = D.load(cfgname)
        chk.configs.append(cfgname)
        chk.units = len(db.units)
        chk.functions_analysed += len(db.functions)
        e = escape.Escape(db, tab, BITS + 'R')
        res, reqv = e.run()
        escape.report(chk, e, res, reqv, 'C01.1', cfgname, BITS)
        contracts.verify(chk, db, cfgname, 'C01.2', BITS)
        rule_zero_division(chk, db, cfgname)
        rule_dedupe_fixpoint(chk, db, cfgname)
        for ex in tab['exempt_generators']:
            chk.count('c01.1.exempt_generators')
    n = len(configs)
    chk.floor('c01.1.escape_points', 35 * n)
    chk.floor('c01.1.summarised_methods', 60 * n)
    chk.floor('c01.2.contract_clauses', 4 * n)
    chk.floor('c01.4.split_sites', n)
    return chk.finish(
        'Escape typestate over every function that creates or finishes a Manifold::Impl: a may-dataflow of the bits '
        'T/S/G per Impl object with interprocedural gen/kill summaries of all Impl methods derived from a table of '
        'eight primitives (CreateHalfedges, CollapseTri, RemoveIfFolded, RemoveUnreferencedVerts, SortGeometry, '
        'CalculateBBox, MakeEmpty, SetEpsilon) plus NaN position writes and the IsManifold gate. Decides that '
        'compaction / stranded-vertex removal / the import gate lie on every path to an escape; does not decide that '
        'pairing, triangulation and collapse produce a manifold in the first place.',
        assumptions=['primitive effects and the four exempt generator call sites are as reviewed in tables/c01.json',
                     'one infeasible edge (Refine: vertBary.size() == 0 on a non-empty mesh) is pruned'])
