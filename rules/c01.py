"""C01 — every returned Manifold is a closed oriented 2-manifold or an empty error (structural clause):
escape typestate T (tombstones compacted), S (stranded verts removed), G (import gate passed)."""
import escape
from db import AnalysisBroken

BITS = 'TSG'


def main(chk, tier):
    import db as D
    configs = ['seq', 'par'] if tier == 'quick' else ['seq', 'par', 'seq-debug', 'par-debug']
    tab = escape.load_table()
    chk.rule('C01.1', 'no Impl escapes (wrapped into a CsgLeafNode/Manifold, returned by value from a reduction, or as '
             'the result of a public Impl constructor) while it may still contain tombstones (halfedge -1 / NaN '
             'vertex), stranded unreferenced vertices, or halfedges paired from caller data that were never put '
             'through the IsManifold gate')
    for cfgname in configs:
        db = D.load(cfgname)
        chk.configs.append(cfgname)
        chk.units = len(db.units)
        chk.functions_analysed += len(db.functions)
        e = escape.Escape(db, tab, BITS)
        res, reqv = e.run()
        escape.report(chk, e, res, reqv, 'C01.1', cfgname, BITS)
        for ex in tab['exempt_generators']:
            chk.count('c01.1.exempt_generators')
    n = len(configs)
    chk.floor('c01.1.escape_points', 35 * n)
    chk.floor('c01.1.summarised_methods', 60 * n)
    return chk.finish(
        'Escape typestate over every function that creates or finishes a Manifold::Impl: a may-dataflow of the bits '
        'T/S/G per Impl object with interprocedural gen/kill summaries of all Impl methods derived from a table of '
        'eight primitives (CreateHalfedges, CollapseTri, RemoveIfFolded, RemoveUnreferencedVerts, SortGeometry, '
        'CalculateBBox, MakeEmpty, SetEpsilon) plus NaN position writes and the IsManifold gate. Decides that '
        'compaction / stranded-vertex removal / the import gate lie on every path to an escape; does not decide that '
        'pairing, triangulation and collapse produce a manifold in the first place.',
        assumptions=['primitive effects and the four exempt generator call sites are as reviewed in tables/c01.json',
                     'one infeasible edge (Refine: vertBary.size() == 0 on a non-empty mesh) is pruned'])
