"""C01 — every returned Manifold is a closed oriented 2-manifold or an empty error (structural clause):
escape typestate T (tombstones compacted), S (stranded verts removed), G (import gate passed)."""
import escape
import contracts
from db import AnalysisBroken

BITS = 'TSGF'


def main(chk, tier):
    import db as D
    configs = ['seq', 'par'] if tier == 'quick' else ['seq', 'par', 'seq-debug', 'par-debug']
    tab = escape.load_table()
    chk.rule('C01.1', 'no Impl escapes (wrapped into a CsgLeafNode/Manifold, returned by value from a reduction, or as '
             'the result of a public Impl constructor) while it may still contain tombstones (halfedge -1 / NaN '
             'vertex), stranded unreferenced vertices, or halfedges paired from caller data that were never put '
             'through the IsManifold gate')
    chk.rule('C01.2', 'the effects the typestate attributes to its primitives hold in their bodies: SortGeometry '
             'calls SortVerts and SortFaces on every normal path, MakeEmpty clears positions and halfedges, '
             'RemoveUnreferencedVerts NaN-marks vertices, CalculateBBox turns a non-finite box into MakeEmpty')
    for cfgname in configs:
        db = D.load(cfgname)
        chk.configs.append(cfgname)
        chk.units = len(db.units)
        chk.functions_analysed += len(db.functions)
        e = escape.Escape(db, tab, BITS + 'R')
        res, reqv = e.run()
        escape.report(chk, e, res, reqv, 'C01.1', cfgname, BITS)
        contracts.verify(chk, db, cfgname, 'C01.2', BITS)
        for ex in tab['exempt_generators']:
            chk.count('c01.1.exempt_generators')
    n = len(configs)
    chk.floor('c01.1.escape_points', 35 * n)
    chk.floor('c01.1.summarised_methods', 60 * n)
    chk.floor('c01.2.contract_clauses', 4 * n)
    return chk.finish(
        'Escape typestate over every function that creates or finishes a Manifold::Impl: a may-dataflow of the bits '
        'T/S/G per Impl object with interprocedural gen/kill summaries of all Impl methods derived from a table of '
        'eight primitives (CreateHalfedges, CollapseTri, RemoveIfFolded, RemoveUnreferencedVerts, SortGeometry, '
        'CalculateBBox, MakeEmpty, SetEpsilon) plus NaN position writes and the IsManifold gate. Decides that '
        'compaction / stranded-vertex removal / the import gate lie on every path to an escape; does not decide that '
        'pairing, triangulation and collapse produce a manifold in the first place.',
        assumptions=['primitive effects and the four exempt generator call sites are as reviewed in tables/c01.json',
                     'one infeasible edge (Refine: vertBary.size() == 0 on a non-empty mesh) is pruned'])
