"""C02 — Booleans compute the regularized set operation (the finite, table-shaped clauses only).

That every point of space is classified correctly is decided by numeric kernels and symbolic perturbation and is
NOT decided here.  What is visible in the shape of the code, and necessary for the set formulas, are the small
tables that turn an operation code into inclusion arithmetic; they are evaluated abstractly over their whole
(finite) domain:

C02.1  inclusion coefficients: for op in {Add, Subtract, Intersect} and winding w in {0, 1} the multiplicity with
       which a boundary piece of P (resp. Q) that lies outside/inside the other operand enters the result equals the
       set formula:  P-pieces 1-w, 1-w, w;  Q-pieces 1-w, -w (reversed), w.  The lambdas applied to w03_/w30_ and
       to the intersection multiplicities x12 are interpreted, not pattern-matched.
C02.2  empty-operand shortcuts of Boolean3::Result return the operand the set algebra dictates
       (0+Q=Q, 0-Q=0, 0^Q=0, P+0=P, P-0=P, P^0=0) — path interpretation over {P empty?, Q empty?} x op.
C02.3  Q's faces are reversed exactly for Subtract (invertQ == (op == Subtract)).
C02.4  Split returns (A^B, A-B) in that order from one Boolean3 of (this, cutter); TrimByPlane and SplitByPlane build
       the same Halfspace(BoundingBox(), normal, originOffset) and use Intersect / Split of it."""
import cfg as C
import tree as T
from db import AnalysisBroken

OPS = ['Add', 'Subtract', 'Intersect']


class Stop(Exception):
    pass


def ev(n, env):
    n = T.strip_copy(n)
    k = n.get('k')
    if k == 'int':
        return n['v']
    if k == 'bool':
        return bool(n['v'])
    if k == 'enum':
        return n['n'].split('::')[-1]
    if k == 'var':
        if n['n'] in env:
            return env[n['n']]
        raise Stop('free variable ' + n['n'])
    if k == 'cond':
        return ev(n['a'], env) if ev(n['c'], env) else ev(n['b'], env)
    if k == 'un':
        v = ev(n['e'], env)
        if n.get('op') == '-':
            return -v
        if n.get('op') == '!':
            return not v
        raise Stop('unary ' + str(n.get('op')))
    if k == 'bin':
        op = n.get('op')
        if op == '&&':
            return bool(ev(n['l'], env)) and bool(ev(n['r'], env))
        if op == '||':
            return bool(ev(n['l'], env)) or bool(ev(n['r'], env))
        a, b = ev(n['l'], env), ev(n['r'], env)
        if op == '==':
            return a == b
        if op == '!=':
            return a != b
        if op == '+':
            return a + b
        if op == '-':
            return a - b
        if op == '*':
            return a * b
        raise Stop('binary ' + str(op))
    if k == 'call' and T.short(n.get('fn', '')) == 'IsEmpty' and n.get('recv') is not None:
        r = T.strip(n['recv'])
        key = 'empty:' + (r.get('n') or '')
        if key in env:
            return env[key]
    raise Stop('node ' + str(k))


def lambda_value(db, lam, env, arg):
    """value returned by a one-parameter lambda whose body is a single return"""
    f = db.functions.get(lam['fk'])
    if not f or len(f['params']) != 1:
        raise Stop('lambda shape')
    e2 = dict(env)
    e2[f['params'][0]['n']] = arg
    for b in f['blocks']:
        for e in b['ev']:
            if e.get('k') == 'return' and 'e' in e:
                return ev(e['e'], e2)
    raise Stop('no return')


def rule_coefficients(chk, db, cfgname, fn):
    chk.rule('C02.1', 'inclusion arithmetic realises the set formulas: for every op and winding w in {0,1} the lambdas '
             'applied to w03_ (P pieces by their winding in Q), w30_ (Q pieces by their winding in P) and to the '
             'intersection multiplicities evaluate to P: 1-w, 1-w, w;  Q: 1-w, -w, w;  edges: sign -1, -1, +1')
    inits = {}
    for b in fn['blocks']:
        for e in b['ev']:
            if e.get('k') == 'decl':
                for v in e['vars']:
                    if v.get('init') is not None:
                        inits[v['n']] = v['init']
    want = {'w03_': {'Add': lambda w: 1 - w, 'Subtract': lambda w: 1 - w, 'Intersect': lambda w: w},
            'w30_': {'Add': lambda w: 1 - w, 'Subtract': lambda w: -w, 'Intersect': lambda w: w},
            'x12': {'Add': lambda w: -w, 'Subtract': lambda w: -w, 'Intersect': lambda w: w}}
    found = {}
    for b in fn['blocks']:
        for e in b['ev']:
            if e.get('k') == 'call' and T.short(e.get('fn', '')) == 'transform' and e.get('args'):
                src = T.pstr(e['args'][0])
                key = next((k for k in want if k in src), None)
                lam = [x for x in T.walk(e['args'][-1]) if isinstance(x, dict) and x.get('k') == 'lambda']
                if key and lam:
                    found.setdefault(key, []).append((lam[0], e.get('ln')))
    for key in want:
        if key not in found:
            raise AnalysisBroken('C02.1: no transform over %s found in Boolean3::Result' % key)
    for key, sites in sorted(found.items()):
        for lam, ln in sites:
            for op in OPS:
                env = {'op': op}
                try:
                    for c in lam.get('caps', []):
                        if c['n'] in inits:
                            env[c['n']] = ev(inits[c['n']], {'op': op})
                    got = [lambda_value(db, lam, env, w) for w in (0, 1)]
                except Stop as s:
                    raise AnalysisBroken('C02.1: cannot interpret the %s lambda (%s)' % (key, s))
                exp = [want[key][op](w) for w in (0, 1)]
                chk.count('c02.1.table_entries', 2)
                ok = got == exp
                chk.obligation(ok, {'source': key, 'op': op, 'line': ln, 'value for w=0,1': got, 'set formula': exp})
                if not ok:
                    chk.violation('C02.1', fn, 'inclusion of %s pieces for %s' % (key, op),
                                  'for %s the inclusion value of %s entries with winding 0/1 is %s, the set formula '
                                  'requires %s: pieces of an operand are kept (or dropped, or reversed) where the '
                                  'regularized %s must not' % (op, key, got, exp, op), line=ln, cfg=cfgname)
    # invertQ
    chk.rule('C02.3', 'the faces of Q are reversed exactly for Subtract: invertQ == (op == OpType::Subtract)')
    if 'invertQ' not in inits:
        raise AnalysisBroken('C02.3: invertQ not found')
    for op in OPS:
        try:
            v = bool(ev(inits['invertQ'], {'op': op}))
        except Stop as s:
            raise AnalysisBroken('C02.3: cannot interpret invertQ (%s)' % s)
        ok = v == (op == 'Subtract')
        chk.count('c02.3.entries')
        chk.obligation(ok, {'op': op, 'invertQ': v})
        if not ok:
            chk.violation('C02.3', fn, 'invertQ for %s is %s' % (op, v), 'Q\'s triangles are %sreversed for %s'
                          % ('' if v else 'not ', op), cfg=cfgname)


def rule_shortcuts(chk, db, cfgname, fn):
    chk.rule('C02.2', 'empty-operand shortcuts of Boolean3::Result follow the set algebra: 0+Q=Q, 0-Q=0, 0^Q=0, P+0=P, '
             'P-0=P, P^0=0 (path interpretation of the branch ladder for every op and emptiness pattern)')
    g = C.Cfg(fn)
    # start at the first branch that tests IsEmpty of an operand
    start = None
    for bid in g.rpo():
        cond, _ = C.branch_cond(g.blocks[bid])
        if cond is not None and 'IsEmpty' in T.pstr(cond) and ('inP_' in T.pstr(cond) or 'inQ_' in T.pstr(cond)):
            start = bid
            break
    if start is None:
        raise AnalysisBroken('C02.2: emptiness ladder of Boolean3::Result not found')
    n = 0
    for op in OPS:
        for pe, qe in ((True, False), (False, True), (True, True)):
            env = {'op': op, 'empty:inP_': pe, 'empty:inQ_': qe}
            bid = start
            res = None
            for _ in range(50):
                blk = g.blocks[bid]
                ret = [e for e in blk['ev'] if e.get('k') == 'return' and 'e' in e]
                if ret:
                    r = T.strip_copy(ret[0]['e'])
                    if r.get('k') == 'mem':
                        res = r['n']
                    elif r.get('k') == 'ctor' and not r.get('args'):
                        res = 'empty'
                    else:
                        res = T.pstr(r)[:30]
                    break
                cond, _ = C.branch_cond(blk)
                ss = blk['succ']
                if cond is not None and len(ss) == 2:
                    try:
                        bid = ss[0] if ev(cond, env) else ss[1]
                    except Stop:
                        res = 'not decided by the shortcut ladder (%s)' % T.pstr(cond)[:30]
                        break
                elif ss and ss[0] is not None and ss[0] >= 0:
                    bid = ss[0]
                else:
                    break
            if op == 'Add':
                exp = 'empty' if (pe and qe) else ('inQ_' if pe else 'inP_')
            elif op == 'Subtract':
                exp = 'empty' if pe else 'inP_'
            else:
                exp = 'empty'
            n += 1
            # an empty operand returned by name is also the empty solid
            ok = res == exp or (exp == 'empty' and ((res == 'inP_' and pe) or (res == 'inQ_' and qe)))
            chk.obligation(ok, {'op': op, 'P empty': pe, 'Q empty': qe, 'returned': res, 'set algebra': exp})
            if not ok:
                chk.violation('C02.2', fn, '%s with P %s, Q %s returns %s' % (op, 'empty' if pe else 'non-empty',
                                                                              'empty' if qe else 'non-empty', res),
                              'the empty-operand shortcut returns %s where the set algebra gives %s' % (res, exp),
                              cfg=cfgname)
    chk.count('c02.2.shortcut_cases', n)


def rule_split(chk, db, cfgname):
    chk.rule('C02.4', 'Split returns (A^B, A-B) in that order from one Boolean3 over (this, cutter); TrimByPlane '
             'intersects with, and SplitByPlane splits by, the same Halfspace(BoundingBox(), normal, originOffset)')
    sp = [f for f in db.fn('manifold::Manifold::Split') if f.get('blocks')]
    if len(sp) != 1:
        raise AnalysisBroken('C02.4: Manifold::Split not found uniquely')
    f = sp[0]
    results = {}
    order = []
    boolean_args = None
    for b in f['blocks']:
        for e in b['ev']:
            if e.get('k') == 'decl':
                for v in e['vars']:
                    i = v.get('init')
                    if i is None:
                        continue
                    for x in T.walk(i):
                        if isinstance(x, dict) and x.get('k') == 'call' and T.short(x.get('fn', '')) == 'Result' and \
                                x.get('args'):
                            a = T.strip_copy(x['args'][0])
                            results[v['n']] = a.get('n', '').split('::')[-1]
                    i0 = T.strip_copy(i)
                    if i0.get('k') == 'ctor' and T.short(i0.get('cls', '')) == 'Boolean3':
                        boolean_args = [T.pstr(a) for a in i0.get('args', [])]
            if e.get('k') == 'call' and T.short(e.get('fn', '')) == 'make_pair':
                for a in e.get('args', []):
                    names = [y['n'] for y in T.walk(a) if isinstance(y, dict) and y.get('k') == 'var']
                    order.append(next((results[nm] for nm in names if nm in results), '?'))
    ok = order == ['Intersect', 'Subtract']
    chk.count('c02.4.checks')
    chk.obligation(ok, {'function': f['name'], 'pair': order, 'expected': ['Intersect', 'Subtract']})
    if not ok:
        chk.violation('C02.4', f, 'Split returns %s' % order, 'Split must return (A^B, A-B); it returns %s' % order,
                      cfg=cfgname)
    okb = boolean_args is not None and len(boolean_args) >= 2 and 'impl1' in boolean_args[0] and \
        'impl2' in boolean_args[1]
    chk.count('c02.4.checks')
    chk.obligation(okb, {'function': f['name'], 'Boolean3 operands': boolean_args})
    if not okb:
        chk.violation('C02.4', f, 'Split operands %s' % boolean_args, 'the Boolean3 of Split is not built from (this, '
                      'cutter) in that order', cfg=cfgname)
    # halfspace siblings
    hs = {}
    for nm in ('manifold::Manifold::TrimByPlane', 'manifold::Manifold::SplitByPlane'):
        for ff in db.fn(nm):
            for b in ff.get('blocks', []):
                for e in b['ev']:
                    if e.get('k') == 'call' and T.short(e.get('fn', '')) == 'Halfspace':
                        hs[nm] = ([T.pstr(a) for a in e.get('args', [])], ff)
    if len(hs) != 2:
        raise AnalysisBroken('C02.4: Halfspace construction of TrimByPlane/SplitByPlane not found')
    a, b = hs['manifold::Manifold::TrimByPlane'][0], hs['manifold::Manifold::SplitByPlane'][0]
    ok = a == b
    chk.count('c02.4.checks')
    chk.obligation(ok, {'TrimByPlane Halfspace': a, 'SplitByPlane Halfspace': b})
    if not ok:
        chk.violation('C02.4', hs['manifold::Manifold::TrimByPlane'][1], 'Halfspace arguments differ',
                      'TrimByPlane builds Halfspace(%s) but SplitByPlane builds Halfspace(%s): the two do not cut along '
                      'the same plane' % (a, b), cfg=cfgname)
    # TrimByPlane intersects
    tf = hs['manifold::Manifold::TrimByPlane'][1]
    opx = [e.get('op') for b2 in tf['blocks'] for e in b2['ev'] if e.get('k') == 'call' and e.get('op') in ('^', '-', '+')
           and 'Manifold::operator' in e.get('fn', '')]
    ok = opx == ['^']
    chk.count('c02.4.checks')
    chk.obligation(ok, {'TrimByPlane operator': opx})
    if not ok:
        chk.violation('C02.4', tf, 'TrimByPlane uses %s' % opx, 'TrimByPlane must intersect with the half-space',
                      cfg=cfgname)


def main(chk, tier):
    import db as D
    configs = ['seq'] if tier == 'quick' else ['seq', 'par']
    for cfgname in configs:
        db = D.load(cfgname)
        chk.configs.append(cfgname)
        chk.units = len(db.units)
        chk.functions_analysed += len(db.functions)
        fs = [f for f in db.fn('manifold::Boolean3::Result') if f.get('blocks')]
        if len(fs) != 1:
            raise AnalysisBroken('C02: Boolean3::Result not found uniquely')
        rule_coefficients(chk, db, cfgname, fs[0])
        rule_shortcuts(chk, db, cfgname, fs[0])
        rule_split(chk, db, cfgname)
    n = len(configs)
    chk.floor('c02.1.table_entries', 20 * n)
    chk.floor('c02.2.shortcut_cases', 9 * n)
    chk.floor('c02.4.checks', 4 * n)
    return chk.finish(
        'Exhaustive abstract evaluation of the finite tables that turn an operation code into inclusion arithmetic '
        '(coefficient lambdas over op x winding in {0,1}, the empty-operand shortcut ladder over op x emptiness, the '
        'invertQ flag) and the shape of Split/TrimByPlane/SplitByPlane. These tables are necessary for the set '
        'formulas; the classification of every point of space by the numeric kernels, symbolic perturbation in the '
        'coplanar regime, inclusion-exclusion of volumes and lattice exactness are NOT decided (the two wrong results '
        'named in the property text live there).',
        assumptions=['winding numbers of epsilon-valid operands are 0 or 1', 'w03_/w30_/x12 keep their meaning '
                     '(winding of P vertices in Q, of Q vertices in P, signed edge-face intersection multiplicity)'],
        exhaustive=True) if 'exhaustive' in chk.finish.__code__.co_varnames else chk.finish(
        'Exhaustive abstract evaluation of the finite tables that turn an operation code into inclusion arithmetic '
        '(coefficient lambdas over op x winding in {0,1}, the empty-operand shortcut ladder over op x emptiness, the '
        'invertQ flag) and the shape of Split/TrimByPlane/SplitByPlane. These tables are necessary for the set '
        'formulas; the classification of every point of space by the numeric kernels, symbolic perturbation in the '
        'coplanar regime, inclusion-exclusion of volumes and lattice exactness are NOT decided (the two wrong results '
        'named in the property text live there).',
        assumptions=['winding numbers of epsilon-valid operands are 0 or 1', 'w03_/w30_/x12 keep their meaning '
                     '(winding of P vertices in Q, of Q vertices in P, signed edge-face intersection multiplicity)'])
