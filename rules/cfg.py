"""Control-flow-graph utilities over the per-function CFGs emitted by mfx:
dominators, loops, branch-sensitive forward dataflow (may = union, must =
intersection)."""


class Cfg:
    def __init__(self, fn):
        self.fn = fn
        self.blocks = {b['id']: b for b in fn.get('blocks', [])}
        self.entry = fn.get('entry')
        self.exit = fn.get('exit')
        self.succ = {}
        self.pred = {i: [] for i in self.blocks}
        for i, b in self.blocks.items():
            ss = [s for s in b['succ']]
            self.succ[i] = ss
            for s in ss:
                if s is not None and s >= 0 and s in self.pred:
                    self.pred[s].append(i)
        self._dom = None
        self._rpo = None

    def ok(self):
        return bool(self.blocks) and self.entry is not None

    def rpo(self):
        if self._rpo is None:
            seen = set()
            order = []
            stack = [(self.entry, iter(self.real_succ(self.entry)))]
            seen.add(self.entry)
            while stack:
                n, it = stack[-1]
                adv = False
                for s in it:
                    if s not in seen:
                        seen.add(s)
                        stack.append((s, iter(self.real_succ(s))))
                        adv = True
                        break
                if not adv:
                    order.append(n)
                    stack.pop()
            self._rpo = list(reversed(order))
        return self._rpo

    def real_succ(self, i):
        return [s for s in self.succ.get(i, []) if s is not None and s >= 0]

    def reachable(self):
        return set(self.rpo())

    def dominators(self):
        """dom[b] = set of blocks dominating b (including b)"""
        if self._dom is not None:
            return self._dom
        order = self.rpo()
        allb = set(order)
        dom = {b: set(allb) for b in order}
        dom[self.entry] = {self.entry}
        changed = True
        while changed:
            changed = False
            for b in order:
                if b == self.entry:
                    continue
                ps = [p for p in self.pred[b] if p in dom]
                if not ps:
                    continue
                new = set.intersection(*(dom[p] for p in ps)) | {b}
                if new != dom[b]:
                    dom[b] = new
                    changed = True
        self._dom = dom
        return dom

    def post_dominators(self):
        """pdom[b] = blocks post-dominating b (including b), w.r.t. the exit block"""
        if getattr(self, '_pdom', None) is not None:
            return self._pdom
        nodes = list(self.reachable())
        allb = set(nodes)
        pdom = {b: set(allb) for b in nodes}
        pdom[self.exit] = {self.exit}
        changed = True
        while changed:
            changed = False
            for b in nodes:
                if b == self.exit:
                    continue
                ss = [s for s in self.real_succ(b) if s in pdom]
                if not ss:
                    new = {b}
                else:
                    new = set.intersection(*(pdom[s] for s in ss)) | {b}
                if new != pdom[b]:
                    pdom[b] = new
                    changed = True
        self._pdom = pdom
        return pdom

    def control_deps(self, bid):
        """[(branch block d, successor index k)]: bid is control dependent on the edge d -> succ[k]"""
        pdom = self.post_dominators()
        out = []
        for d in self.reachable():
            ss = self.succ.get(d, [])
            if len([s for s in ss if s is not None and s >= 0]) < 2:
                continue
            for k, s in enumerate(ss):
                if s is None or s < 0 or s not in pdom:
                    continue
                if bid in pdom[s] and bid not in (pdom[d] - {d}):
                    out.append((d, k))
        return out

    def back_edges(self):
        dom = self.dominators()
        out = []
        for b in dom:
            for s in self.real_succ(b):
                if s in dom.get(b, ()):  # s dominates b
                    out.append((b, s))
        return out

    def loops(self):
        """natural loops: header -> set of blocks"""
        res = {}
        for (t, h) in self.back_edges():
            body = {h, t}
            stack = [t]
            while stack:
                x = stack.pop()
                if x == h:
                    continue
                for p in self.pred[x]:
                    if p not in body:
                        body.add(p)
                        stack.append(p)
            res.setdefault(h, set()).update(body)
        return res

    def in_loop(self):
        s = set()
        for body in self.loops().values():
            s |= body
        return s

    def events(self):
        for i in self.rpo():
            for ev in self.blocks[i]['ev']:
                yield i, ev


def forward(cfg, init, transfer, join, edge=None, top=None):
    """Generic forward dataflow.
    transfer(block, state) -> state after the block's events
    edge(block, succ_index, succ_id, state) -> state on that edge (branch
      sensitivity); default identity
    join(a, b) -> merged state.  States must be hashable/comparable.
    Returns (IN, OUT) dicts block id -> state (blocks never reached absent)."""
    IN = {cfg.entry: init}
    OUT = {}
    work = [cfg.entry]
    inwork = {cfg.entry}
    order = {b: i for i, b in enumerate(cfg.rpo())}
    while work:
        work.sort(key=lambda b: order.get(b, 1 << 30), reverse=True)
        b = work.pop()
        inwork.discard(b)
        st = transfer(cfg.blocks[b], IN[b])
        OUT[b] = st
        for k, s in enumerate(cfg.succ[b]):
            if s is None or s < 0 or s not in cfg.blocks:
                continue
            es = edge(cfg.blocks[b], k, s, st) if edge else st
            if es is None:
                continue   # infeasible edge
            if s in IN:
                new = join(IN[s], es)
            else:
                new = es
            if s not in IN or new != IN[s]:
                IN[s] = new
                if s not in inwork:
                    work.append(s)
                    inwork.add(s)
    return IN, OUT


def must_join(a, b):
    return a & b


def may_join(a, b):
    return a | b


def branch_cond(block):
    """(condition tree, kind) of a two-way terminator, else (None, None)"""
    t = block.get('term')
    if not t or 'cond' not in t:
        return None, None
    return t['cond'], t['c']


def split_negation(cond):
    """strip leading ! operators: returns (inner, negated)"""
    neg = False
    from tree import strip
    cond = strip(cond)
    while cond.get('k') == 'un' and cond.get('op') == '!':
        neg = not neg
        cond = strip(cond['e'])
    return cond, neg
