"""C06 — shared objects are usable from many threads (library-owned mutable state).

R1  guarded-by (lockset): every access to a lazily mutated shared field happens with its guard
    held, after the forcing call on the same object, or on a thread-private object
R1b Manifold::ctx_ is touched only through AtomicLoadShared/AtomicStoreShared
R1c HashTableD key slots are only accessed through AtomicCAS/AtomicLoad
R2  the mesh-ID counter is read at most once per function (one snapshot)
R3  the lock-order graph over lock classes is acyclic; same-class locks only via one scoped_lock
R4  compare-exchange whose failure value is used as information is the strong form
"""
import json
import os

import cfg as C
import tree as T
from db import AnalysisBroken, VERIF

LOCK_TYPES = ('std::lock_guard', 'std::scoped_lock', 'std::unique_lock')


def norm(p):
    p = p.replace('->', '.')
    while p.startswith('*'):
        p = p[1:]
    if p.startswith('(') and p.endswith(')'):
        p = p[1:-1]
    return p


def load_table():
    return json.load(open(os.path.join(VERIF, 'rules', 'tables', 'c06.json')))


class LockInfo:
    """lock acquisitions of one function: var name -> [lock ids]"""

    def __init__(self, db, fn):
        self.acq = {}     # (var, decl loc) -> lock ids
        for b in fn['blocks']:
            for ev in b['ev']:
                if ev.get('k') != 'decl':
                    continue
                for v in ev['vars']:
                    t = db.T(fn, v['t'])
                    init = v.get('init')
                    if t.get('r') in LOCK_TYPES and init is not None:
                        n = T.strip(init)
                        ids = [norm(T.pstr(a)) for a in n.get('args', [])] if n.get('k') in ('ctor', 'ilist') else []
                        self.acq[(v['n'], v['d'])] = ids
                    elif init is not None:
                        n = T.strip_copy(init)
                        if n.get('k') == 'call' and T.short(n.get('fn', '')) == 'GetGuard' and n.get('recv') is not None:
                            self.acq[(v['n'], v['d'])] = [norm(T.pstr(n['recv']))]


def lock_transfer(li):
    def transfer_event(ev, held):
        k = ev.get('k')
        if k == 'decl':
            for v in ev['vars']:
                if (v['n'], v['d']) in li.acq:
                    held = held | frozenset(li.acq[(v['n'], v['d'])])
        elif k == 'dtor' and (ev.get('n'), ev.get('d')) in li.acq:
            held = held - frozenset(li.acq[(ev['n'], ev['d'])])
        elif k == 'call' and ev.get('recv') is not None and T.short(ev.get('fn', '')) in ('lock', 'unlock') \
                and 'mutex' in ev.get('mcls', ''):
            lid = norm(T.pstr(ev['recv']))
            held = (held | {lid}) if T.short(ev['fn']) == 'lock' else (held - {lid})
        return held
    return transfer_event


def fresh_locals(db, fn, cls):
    """locals of class type (by value) or smart pointers to freshly made objects"""
    out = set()
    for b in fn['blocks']:
        for ev in b['ev']:
            if ev.get('k') != 'decl':
                continue
            for v in ev['vars']:
                t = db.T(fn, v['t'])
                if t.get('ref'):
                    continue
                if t.get('r') == cls and not t.get('ptr'):
                    out.add(v['n'])
                elif t.get('r') in ('std::shared_ptr', 'std::unique_ptr') and v.get('init'):
                    n = T.strip_copy(v['init'])
                    if n.get('k') == 'call' and T.short(n.get('fn', '')) in ('make_shared', 'make_unique') and \
                            cls.split('::')[-1] in (db.T(fn, n).get('targs') or [''])[0]:
                        out.add(v['n'])
    return out


def rule_r1(chk, db, cfgname, tab):
    chk.rule('C06.R1', 'every access to a lazily mutated shared field (Manifold::pNode_, CsgLeafNode::pImpl_/'
             'transform_, CsgOpNode::cache_, CrossSection::paths_/transform_/tolerance_) is made with its guard '
             'in the must-lockset, after the forcing call on the same object (no later const call can write it), '
             'or on an object that is still private to the function')
    guarded = {}
    for g in tab['guards']:
        for f in g['fields']:
            guarded[(g['class'], f)] = g
    reviewed = {}
    for r in tab.get('reviewed_private', []):
        reviewed[(r['function'], r['class'])] = r['reason']
    nacc = 0
    nlock = 0
    for fn in db.functions.values():
        if not fn.get('blocks') or fn.get('defaulted'):
            continue   # defaulted move operations: the moved-from object is an rvalue, exclusively owned
        accs = []
        for b in fn['blocks']:
            for ev in b['ev']:
                if ev.get('k') == 'mem' and (ev.get('cls'), ev['n']) in guarded:
                    accs.append((b['id'], ev))
        li = LockInfo(db, fn)
        nlock += sum(len(v) for v in li.acq.values())
        if not accs:
            continue
        g = C.Cfg(fn)
        te = lock_transfer(li)
        classes = {guarded[(ev['cls'], ev['n'])]['class'] for _, ev in accs}
        forcers = {gg['class']: set(gg.get('forcing', [])) for gg in tab['guards']}

        def tr(block, st):
            held, forced = st
            for ev in block['ev']:
                held = te(ev, held)
                if ev.get('k') == 'call' and ev.get('recv') is not None and \
                        T.short(ev.get('fn', '')) in forcers.get(ev.get('mcls'), ()):
                    forced = forced | {norm(T.pstr(ev['recv']))}
            return (held, forced)

        def join(a, b):
            return (a[0] & b[0], a[1] & b[1])
        IN, _ = C.forward(g, (frozenset(), frozenset()), tr, join)
        fresh = {c: fresh_locals(db, fn, c) for c in classes}
        bn = T.basename(fn['name'])
        rootfn = fn['key'].split('::<lambda@')[0]
        for bid, ev in accs:
            gg = guarded[(ev['cls'], ev['n'])]
            cls = gg['class']
            obj = norm(T.pstr(ev['base']))
            need = gg['guard'].replace('{obj}', obj)
            held, forced = IN.get(bid, (frozenset(), frozenset()))
            for e2 in g.blocks[bid]['ev']:
                if e2 is ev:
                    break
                held = te(e2, held)
                if e2.get('k') == 'call' and e2.get('recv') is not None and \
                        T.short(e2.get('fn', '')) in forcers.get(e2.get('mcls'), ()):
                    forced = forced | {norm(T.pstr(e2['recv']))}
            nacc += 1
            why = None
            root = obj.split('.')[0].split('[')[0]
            if need in held:
                why = 'guard %s held' % need
            elif obj in forced:
                why = 'after forcing call on %s (no later const call writes it)' % obj
            elif obj == 'this' and fn.get('cls') == cls and fn.get('kind') in ('ctor', 'dtor'):
                why = 'object under construction/destruction is not shared'
            elif root in fresh.get(cls, ()):
                why = 'object created in this function (thread-private until returned)'
            else:
                for (rf, rc), reason in reviewed.items():
                    if rc == cls and (bn == rf or T.basename(db.functions.get(rootfn, fn)['name']) == rf
                                      or fn['name'].startswith(rf + '::<lambda')):
                        why = 'reviewed private: ' + reason
                        chk.count('c06.r1.reviewed_accesses')
            chk.obligation(why is not None, {'function': fn['name'], 'line': ev.get('ln'),
                                             'access': '%s.%s' % (obj, ev['n']), 'guard': need,
                                             'justified': why or 'UNGUARDED'})
            if why is None:
                chk.violation('C06.R1', fn, '%s.%s unguarded' % (obj, ev['n']),
                              'shared field %s::%s accessed without %s held (and not after a forcing call / on a '
                              'private object): data race with a concurrent const call that rewrites it'
                              % (cls, ev['n'], need), line=ev.get('ln'), cfg=cfgname)
    chk.count('c06.r1.accesses', nacc)
    chk.count('c06.r1.lock_acquisitions', nlock)
    # who-may-call conditions that back the reviewed-private entries
    for w in tab.get('who_may_call', []):
        callers = set()
        for fn in db.functions.values():
            for b in fn.get('blocks', []):
                for ev in b['ev']:
                    if ev.get('k') == 'call' and T.basename(ev.get('fn', '')) == w['callee']:
                        callers.add(T.basename(fn['name'].split('::<lambda')[0]))
        ok = callers <= set(w['callers']) and callers
        chk.obligation(bool(ok), {'callee': w['callee'], 'callers': sorted(callers), 'allowed': w['callers']})
        if not ok:
            chk.violation('C06.R1', w['callee'], 'callers %s' % ','.join(sorted(callers - set(w['callers']))),
                          'function reviewed as operating on thread-private nodes gained a new caller: %s'
                          % w['reason'], cfg=cfgname)
    # every node pushed into an evaluation frame is a fresh node (result of Transform)
    tl = db.one('manifold::CsgOpNode::ToLeafNode')
    fam = [tl] + [f for f in db.functions.values() if f['key'].startswith(tl['key'] + '::<lambda')]
    npush = 0
    for f in fam:
        for b in f['blocks']:
            for ev in b['ev']:
                if ev.get('k') == 'call' and T.short(ev.get('fn', '')) == 'push_back' and ev.get('recv') is not None:
                    r = norm(T.pstr(ev['recv']))
                    if 'dest' in r or 'children' in r:
                        npush += 1
                        a = T.strip_copy(ev['args'][0])
                        while a.get('k') == 'call' and T.short(a.get('fn', '')) == 'static_pointer_cast':
                            a = T.strip_copy(a['args'][0])
                        ok = a.get('k') == 'call' and T.short(a.get('fn', '')) == 'Transform'
                        chk.obligation(ok, {'function': f['name'], 'line': ev.get('ln'), 'pushed': T.pstr(a)[:80],
                                            'fresh node': ok})
                        if not ok:
                            chk.violation('C06.R1', f, 'frame child not fresh', 'a node that may be shared with '
                                          'other threads is handed to Compose/BatchUnion, which read pImpl_/'
                                          'transform_ without the leaf mutex', line=ev.get('ln'), cfg=cfgname)
    chk.count('c06.r1.frame_pushes', npush)


def rule_r1b(chk, db, cfgname):
    chk.rule('C06.R1b', 'Manifold::ctx_ is only ever the operand of AtomicLoadShared/AtomicStoreShared')
    n = 0
    for fn in db.functions.values():
        if fn.get('defaulted'):
            continue
        for b in fn.get('blocks', []):
            ok_ids = set()
            for ev in b['ev']:
                if ev.get('k') == 'call' and T.short(ev.get('fn', '')) in ('AtomicLoadShared', 'AtomicStoreShared'):
                    for x in T.walk(ev):
                        if x.get('k') == 'mem' and x.get('cls') == 'manifold::Manifold' and x['n'] == 'ctx_':
                            ok_ids.add(x.get('i'))
        ids_all = set()
        for b in fn.get('blocks', []):
            for ev in b['ev']:
                if ev.get('k') == 'call' and T.short(ev.get('fn', '')) in ('AtomicLoadShared', 'AtomicStoreShared'):
                    for x in T.walk(ev):
                        if x.get('k') == 'mem' and x.get('cls') == 'manifold::Manifold' and x['n'] == 'ctx_':
                            ids_all.add(x.get('i'))
        for b in fn.get('blocks', []):
            for ev in b['ev']:
                if ev.get('k') == 'mem' and ev.get('cls') == 'manifold::Manifold' and ev['n'] == 'ctx_':
                    n += 1
                    ok = ev.get('i') in ids_all
                    if not ok:
                        root = norm(T.pstr(ev['base'])).split('.')[0]
                        if root in fresh_locals(db, fn, 'manifold::Manifold'):
                            ok = True   # object created in this function: not yet visible to other threads
                        if fn.get('kind') in ('ctor', 'dtor') and norm(T.pstr(ev['base'])) == 'this':
                            ok = True
                    chk.obligation(ok, {'function': fn['name'], 'line': ev.get('ln'), 'ctx_ access atomic': ok})
                    if not ok:
                        chk.violation('C06.R1b', fn, '%s.ctx_ plain access' % norm(T.pstr(ev['base'])),
                                      'Manifold::ctx_ read/written without the atomic shared_ptr helpers',
                                      line=ev.get('ln'), cfg=cfgname)
    chk.count('c06.r1b.ctx_accesses', n)


def rule_r1c(chk, db, cfgname):
    chk.rule('C06.R1c', 'HashTableD key slots are accessed only through AtomicCAS/AtomicLoad (AtomicRef)')
    n = 0
    for fn in db.functions.values():
        if not T.basename(fn.get('cls', '') or '').startswith('manifold::HashTableD') or not fn.get('blocks'):
            continue
        ok_ids = set()
        refvars = {}
        for b in fn['blocks']:
            for ev in b['ev']:
                if ev.get('k') == 'call' and T.short(ev.get('fn', '')) in ('AtomicCAS', 'AtomicLoad'):
                    for x in T.walk(ev):
                        if 'i' in x:
                            ok_ids.add(x['i'])
                if ev.get('k') == 'decl':
                    for v in ev['vars']:
                        if db.T(fn, v['t']).get('ref') and v.get('init'):
                            for x in T.walk(v['init']):
                                if x.get('k') == 'mem' and x['n'] == 'keys_':
                                    refvars[v['n']] = ev
                                    for y in T.walk(v['init']):
                                        if 'i' in y:
                                            ok_ids.add(y['i'])
        for b in fn['blocks']:
            for ev in b['ev']:
                if ev.get('k') == 'call' and ev.get('op') == '[]' and ev.get('recv') is not None and \
                        T.strip(ev['recv']).get('n') == 'keys_':
                    n += 1
                    ok = ev.get('i') in ok_ids
                    chk.obligation(ok, {'function': fn['name'], 'line': ev.get('ln'), 'keys_[..] atomic': ok})
                    if not ok:
                        chk.violation('C06.R1c', fn, 'keys_[] plain access', 'hash-table key slot accessed without '
                                      'AtomicCAS/AtomicLoad while other threads insert', line=ev.get('ln'),
                                      cfg=cfgname)
        # reference aliases of a slot may only be passed to the atomic helpers
        for b in fn['blocks']:
            for ev in b['ev']:
                for x in T.walk(ev):
                    if x.get('k') == 'var' and x['n'] in refvars and ev.get('k') != 'decl':
                        top_ok = ev.get('k') == 'call' and T.short(ev.get('fn', '')) in ('AtomicCAS', 'AtomicLoad')
                        inside = any(y is x for c in T.calls(ev)
                                     if T.short(c.get('fn', '')) in ('AtomicCAS', 'AtomicLoad') for y in T.walk(c))
                        if not (top_ok or inside):
                            chk.violation('C06.R1c', fn, 'slot alias %s plain use' % x['n'],
                                          'reference to a key slot used outside AtomicCAS/AtomicLoad',
                                          line=ev.get('ln'), cfg=cfgname)
    chk.count('c06.r1c.key_slot_accesses', n)


def _counter_event(ev):
    """('load'|'rmw', line) if ev accesses Impl::meshIDCounter_"""
    if ev.get('k') == 'call' and ev.get('recv') is not None:
        r = T.strip(ev['recv'])
        if r.get('k') in ('mem', 'var') and r.get('n', '').endswith('meshIDCounter_'):
            name = T.short(ev.get('fn', ''))
            kind = 'rmw' if name.startswith(('fetch_', 'exchange', 'compare_exchange', 'operator++', 'operator+=')) \
                else 'load'
            return kind, ev.get('ln')
    return None


def rule_r2(chk, db, cfgname, tab, rid='C06.R2'):
    chk.rule(rid, 'one logical ID-offset computation uses one snapshot of Impl::meshIDCounter_: a function takes '
             'at most one snapshot (a plain load, or a call to a helper that returns one) and, if it takes one, calls '
             'no other function that takes its own')
    direct = {}        # fn key -> [(kind, line)]
    for fn in db.functions.values():
        for b in fn.get('blocks', []):
            for ev in b['ev']:
                ce = _counter_event(ev)
                if ce:
                    direct.setdefault(fn['key'], []).append(ce)
    if not direct:
        raise AnalysisBroken('C06.R2: no access to meshIDCounter_ found')
    # helpers whose return value is a snapshot
    returns_snapshot = set()
    for k, evs in direct.items():
        fn = db.functions[k]
        if not any(kind == 'load' for kind, _ in evs):
            continue
        tainted = set()
        for b in fn['blocks']:
            for ev in b['ev']:
                if ev.get('k') == 'decl':
                    for v in ev['vars']:
                        if v.get('init') is not None and any(_counter_event(x) for x in T.walk(v['init'])):
                            tainted.add(v['n'])
                if ev.get('k') == 'return' and 'e' in ev:
                    if any(_counter_event(x) or (x.get('k') == 'var' and x['n'] in tainted)
                           for x in T.walk(ev['e'])):
                        returns_snapshot.add(k)
    # transitive "takes a snapshot somewhere inside"
    loads = {k for k, evs in direct.items() if any(kind == 'load' for kind, _ in evs)}
    calls = {}
    for fn in db.functions.values():
        outs = []
        for b in fn.get('blocks', []):
            for ev in b['ev']:
                if ev.get('k') in ('call', 'ctor') and ev.get('fk'):
                    outs.append((ev['fk'], ev.get('ln')))
        calls[fn['key']] = outs
    takes = set(loads)
    changed = True
    while changed:
        changed = False
        for k, outs in calls.items():
            if k not in takes and any(o in takes for o, _ in outs):
                takes.add(k)
                changed = True
    n = 0
    for fn in db.functions.values():
        k = fn['key']
        own = [ln for kind, ln in direct.get(k, []) if kind == 'load']
        own += [ln for o, ln in calls.get(k, []) if o in returns_snapshot]
        n += len(direct.get(k, []))
        if not own:
            continue
        nested = [(db.functions[o]['name'], ln) for o, ln in calls.get(k, [])
                  if o in takes and o not in returns_snapshot and o in db.functions]
        ok = len(own) <= 1 and not nested
        chk.obligation(ok, {'function': fn['name'], 'snapshots taken at lines': own,
                            'callees taking their own snapshot': nested})
        if not ok:
            chk.violation(rid, fn, 'meshIDCounter_ snapshots %d+%d' % (len(own), len(nested)),
                          'the global mesh-ID counter is sampled more than once for one ID-offset computation '
                          '(lines %s; callees with their own snapshot: %s): another thread reserving IDs in '
                          'between makes triangle IDs and relation keys disagree' % (own, nested),
                          line=own[0], cfg=cfgname)
    chk.count(rid.lower() + '.counter_accesses', n)


def rule_r5(chk, db, cfgname, tab):
    chk.rule('C06.R5', 'a lock that guards data shared by copying its owner travels with that data: the copy '
             'constructor and copy assignment of the owner copy the payload pointer and the lock together, and the '
             'lock is held through a shared pointer')
    for ent in tab.get('lock_travels_with_payload', []):
        cls = None
        for c in db.classes.values():
            if c['qname'] == ent['class'] and c.get('tmpl'):
                cls = c
                break
        if cls is None:
            raise AnalysisBroken('C06.R5: no instantiation of %s found' % ent['class'])
        ft = {f['n']: db.types[cls['tu']][f['t']] for f in cls['fields']}
        if ent['payload'] not in ft or ent['lock'] not in ft:
            raise AnalysisBroken('C06.R5: fields %s/%s not found in %s' % (ent['payload'], ent['lock'], ent['class']))
        ok = ft[ent['lock']].get('r') == 'std::shared_ptr'
        chk.obligation(ok, {'class': cls['name'], 'lock field': ent['lock'], 'type': ft[ent['lock']]['s']})
        if not ok:
            chk.violation('C06.R5', cls['name'], 'lock %s by value' % ent['lock'],
                          'copies of %s share %s but each copy gets its own %s: two owners of the same payload lock '
                          'different mutexes' % (ent['class'], ent['payload'], ent['lock']),
                          file=cls['file'], line=cls['line'], cfg=cfgname)
        n = 0
        for fn in db.functions.values():
            if T.basename(fn.get('cls', '') or '') != ent['class'] or not fn.get('blocks'):
                continue
            is_copy = fn.get('kind') == 'ctor' and len(fn['params']) == 1 and \
                db.T(fn, fn['params'][0]['t']).get('r') == ent['class']
            is_assign = fn.get('op') == '='
            if not (is_copy or is_assign):
                continue
            n += 1
            copied = set()
            for b in fn['blocks']:
                for ev in b['ev']:
                    if ev.get('k') == 'init' and ev.get('written'):
                        copied.add(ev['n'])
                    if ev.get('k') == 'call' and ev.get('op') == '=' and ev.get('recv') is not None:
                        r = T.strip(ev['recv'])
                        if r.get('k') == 'mem':
                            copied.add(r['n'])
                    if ev.get('k') == 'bin' and ev.get('op') == '=':
                        l = T.strip(ev['l'])
                        if l.get('k') == 'mem':
                            copied.add(l['n'])
            ok = (ent['payload'] in copied) == (ent['lock'] in copied)
            chk.obligation(ok, {'function': fn['name'], 'fields copied': sorted(copied)})
            if not ok:
                chk.violation('C06.R5', fn, 'copies %s without %s' % (ent['payload'], ent['lock']),
                              'the copy shares the payload but not the lock that guards it', cfg=cfgname)
        chk.count('c06.r5.copy_operations', n)


def lock_class(db, fn, lid):
    """map a lock id (access path) to a lock class name"""
    last = lid.split('.')[-1].split('[')[0]
    return last


def rule_r3(chk, db, cfgname, tab):
    chk.rule('C06.R3', 'lock-order graph over lock classes (edge A->B when B is acquired, directly or through a '
             'callee, while A is held) is acyclic; two locks of one class are only taken by one scoped_lock or '
             'are the re-entrant op-node guard')
    # direct acquisitions per function, and calls made while holding
    acquires = {}     # fn key -> set of classes acquired directly
    calls_under = {}  # fn key -> list of (held classes, callee keys, line)
    direct_edges = {}
    for fn in db.functions.values():
        if not fn.get('blocks'):
            continue
        li = LockInfo(db, fn)
        has_manual = False
        g = C.Cfg(fn)
        if not li.acq:
            # still record plain calls (held = {})
            pass
        te = lock_transfer(li)

        def tr(block, held):
            for ev in block['ev']:
                held = te(ev, held)
            return held
        IN, _ = C.forward(g, frozenset(), tr, lambda a, b: a | b)   # may-held for ordering
        acq = set()
        for b in g.rpo():
            held = IN.get(b, frozenset())
            for ev in g.blocks[b]['ev']:
                before = held
                held = te(ev, held)
                new = held - before
                if new:
                    newc = [lock_class(db, fn, x) for x in new]
                    acq.update(newc)
                    if len(new) > 1:
                        chk.count('c06.r3.multi_lock_acquisitions')
                    for h in before:
                        for x in new:
                            direct_edges.setdefault((lock_class(db, fn, h), lock_class(db, fn, x)), []).append(
                                (fn['name'], ev.get('ln'), h, x))
                if ev.get('k') in ('call', 'ctor') and before:
                    fk = ev.get('fk')
                    keys = []
                    if fk:
                        keys.append(fk)
                    if ev.get('virt'):
                        m = T.short(ev.get('fn', ''))
                        keys += [f['key'] for f in db.functions.values()
                                 if f.get('virtual') and T.short(f['name']) == m]
                    for a in ev.get('args', []):
                        a = T.strip(a)
                        if a.get('k') == 'lambda':
                            keys.append(a['fk'])
                    if keys:
                        # copy-construction of / from an object private to this function: the callee's lock
                        # belongs to a thread-private object and cannot participate in a cycle
                        private = False
                        if ev.get('k') == 'ctor' and (ev.get('copy') or ev.get('move')) and ev.get('args'):
                            r = T.root_of(T.strip(ev['args'][0]))
                            if r is not None and r.get('k') == 'var' and r.get('s') == 'l' and \
                                    not db.T(fn, r).get('ref'):
                                private = True
                        calls_under.setdefault(fn['key'], []).append(
                            (frozenset(lock_class(db, fn, h) for h in before), keys, ev.get('ln'), private))
        if acq:
            acquires[fn['key']] = acq
    # transitive acquisitions
    callgraph = {}
    for fn in db.functions.values():
        outs = set()
        for b in fn.get('blocks', []):
            for ev in b['ev']:
                if ev.get('k') in ('call', 'ctor'):
                    if ev.get('fk'):
                        outs.add(ev['fk'])
                    if ev.get('virt'):
                        m = T.short(ev.get('fn', ''))
                        outs.update(f['key'] for f in db.functions.values()
                                    if f.get('virtual') and T.short(f['name']) == m)
                    for x in T.walk(ev):
                        if x.get('k') == 'lambda':
                            outs.add(x['fk'])
        callgraph[fn['key']] = outs
    trans = {k: set(v) for k, v in acquires.items()}
    changed = True
    while changed:
        changed = False
        for k, outs in callgraph.items():
            cur = trans.get(k, set())
            add = set()
            for o in outs:
                add |= trans.get(o, set())
            if not add <= cur:
                trans[k] = cur | add
                changed = True
    edges = {}
    for (a, b), sites in direct_edges.items():
        edges.setdefault((a, b), []).extend(sites)
    for k, lst in calls_under.items():
        for held, keys, ln, private in lst:
            for ck in keys:
                for c in trans.get(ck, ()):
                    for h in held:
                        edges.setdefault((h, c), []).append((db.functions[k]['name'], ln, h,
                                                             ('private:' if private else 'via ') + ck[:60]))
    chk.count('c06.r3.lock_classes', len({x for e in edges for x in e} | {c for v in acquires.values() for c in v}))
    chk.count('c06.r3.edges', len(edges))
    reentrant = set(tab.get('reentrant_lock_classes', []))
    # self edges
    for (a, b), sites in edges.items():
        if a == b:
            sites = [s for s in sites if not s[3].startswith('private:')]
            if not sites:
                continue
            ok = a in reentrant
            chk.obligation(ok, {'lock class': a, 'nested acquisition': sites[0][:2], 'reentrant (recursive_mutex)': ok})
            if not ok:
                chk.violation('C06.R3', sites[0][0], 'nested %s' % a,
                              'a second lock of class %s is taken while one is held, not through a single '
                              'scoped_lock: two threads doing so on the same pair in opposite order deadlock' % a,
                              line=sites[0][1], cfg=cfgname)
    # cycles
    adj = {}
    for (a, b) in edges:
        if a != b:
            adj.setdefault(a, set()).add(b)
    color = {}
    cyc = []

    def dfs(u, stack):
        color[u] = 1
        for v in adj.get(u, ()):
            if color.get(v) == 1:
                cyc.append(stack[stack.index(v):] + [v] if v in stack else [u, v])
            elif v not in color:
                dfs(v, stack + [v])
        color[u] = 2
    for u in list(adj):
        if u not in color:
            dfs(u, [u])
    chk.obligation(not cyc, {'lock-order edges': sorted('%s->%s' % e for e in edges if e[0] != e[1]),
                             'cycles': cyc})
    for c in cyc:
        chk.violation('C06.R3', 'lock-order', 'cycle ' + '->'.join(c), 'lock classes are acquired in '
                      'inconsistent order: %s' % '->'.join(c), cfg=cfgname)


def rule_r4(chk, db, cfgname):
    chk.rule('C06.R4', 'compare_exchange whose result is discarded (the expected value is used as the answer) '
             'is the strong form')
    n = 0
    for fn in db.functions.values():
        for b in fn.get('blocks', []):
            for ev in b['ev']:
                if ev.get('k') == 'call' and T.short(ev.get('fn', '')).startswith('compare_exchange'):
                    n += 1
                    weak = T.short(ev['fn']).endswith('weak')
                    # is the boolean result consumed by a branch?
                    used = False
                    t = b.get('term')
                    if t and 'cond' in t:
                        for x in T.walk(t['cond']):
                            if x.get('i') == ev.get('i') and x.get('k') == 'call':
                                used = True
                    for e2 in b['ev']:
                        if e2 is not ev and e2.get('k') in ('decl', 'bin', 'return'):
                            for x in T.walk(e2):
                                if x.get('i') == ev.get('i') and x.get('k') == 'call':
                                    used = True
                    exp_read = _expected_read_after(fn, b, ev)
                    ok = (not weak) or used or not exp_read
                    chk.obligation(ok, {'function': fn['name'], 'line': ev.get('ln'), 'form': T.short(ev['fn']),
                                        'result consumed': used, 'expected read afterwards': exp_read})
                    if not ok:
                        chk.violation('C06.R4', fn, T.short(ev['fn']) + ' result discarded',
                                      'a spurious weak failure leaves `expected` unchanged and is read as "slot '
                                      'claimed"', line=ev.get('ln'), cfg=cfgname)
    chk.count('c06.r4.cas_sites', n)


def _expected_read_after(fn, blk, ev):
    """is the `expected` argument of a compare_exchange read on some path after the call
    (before being re-declared)?"""
    args = ev.get('args', [])
    if not args:
        return True
    r = T.root_of(T.strip(args[0]))
    if r is None or r.get('k') != 'var':
        return True
    name = r['n']
    g = C.Cfg(fn)

    def scan(events):
        for e in events:
            if e.get('k') == 'decl' and any(v['n'] == name for v in e['vars']):
                return 'killed'
            if e.get('i') == ev.get('i'):
                continue
            for x in T.walk(e):
                if x.get('k') == 'var' and x['n'] == name:
                    return 'read'
        return None
    idx = blk['ev'].index(ev)
    res = scan(blk['ev'][idx + 1:])
    if res == 'read':
        return True
    if res == 'killed':
        return False
    t = blk.get('term')
    if t and 'cond' in t and any(x.get('k') == 'var' and x['n'] == name for x in T.walk(t['cond'])):
        return True
    seen = set()
    work = list(g.real_succ(blk['id']))
    while work:
        b = work.pop()
        if b in seen:
            continue
        seen.add(b)
        res = scan(g.blocks[b]['ev'])
        if res == 'read':
            return True
        if res == 'killed':
            continue
        t = g.blocks[b].get('term')
        if t and 'cond' in t and any(x.get('k') == 'var' and x['n'] == name for x in T.walk(t['cond'])):
            return True
        work.extend(g.real_succ(b))
    return False


def rule_r6(chk, db, cfgname, tab):
    chk.rule('C06.R6', 'every mutable variable with static storage in the library is atomic, a mutex, thread_local, a '
             'reviewed process-wide setting, or is accessed only with its guard held; and no pointer, iterator or '
             'reference obtained from a guarded container inside the critical section is used after the guard is '
             'released')
    guards = {g['var']: g for g in tab.get('static_guards', [])}
    reviewed = {g['var']: g['reason'] for g in tab.get('static_reviewed', [])}
    vs = db.vars.values() if isinstance(db.vars, dict) else db.vars
    seen = set()
    for v in vs:
        if not v['file'].startswith(('src/', 'include/', 'bindings/')) or v.get('const') or v.get('constexpr'):
            continue
        if v['name'] in seen:
            continue
        seen.add(v['name'])
        t = db.types[v['tu']][v['t']]
        ts = t.get('s') or ''
        chk.count('c06.r6.static_variables')
        if v.get('threadLocal'):
            why = 'thread_local'
        elif ts.startswith('std::atomic') or 'mutex' in ts:
            why = 'atomic / mutex'
        elif v['name'] in guards:
            why = 'guarded by ' + guards[v['name']]['guard']
        elif v['name'] in reviewed:
            why = 'reviewed: ' + reviewed[v['name']]
        else:
            why = None
        chk.obligation(why is not None, {'static variable': v['name'], 'file': v['file'], 'line': v['line'],
                                         'type': ts[:50], 'status': why or 'UNGUARDED MUTABLE STATIC'})
        if why is None:
            chk.violation('C06.R6', {'name': v['name'], 'file': v['file'], 'line': v['line']},
                          'mutable static %s' % v['name'],
                          'a non-atomic mutable variable with static storage is shared by every thread that uses the '
                          'library and has no registered guard', line=v['line'], cfg=cfgname)
    # guarded statics: accesses under the guard, no derived pointer used outside
    nacc = 0
    for fn in db.functions.values():
        if not fn.get('blocks'):
            continue
        hits = []
        for b in fn['blocks']:
            for ev in b['ev']:
                for x in T.walk(ev):
                    if isinstance(x, dict) and x.get('k') == 'var' and x.get('n') in guards:
                        hits.append(x['n'])
        if not hits:
            continue
        li = LockInfo(db, fn)
        te = lock_transfer(li)
        g = C.Cfg(fn)

        def tr(block, held):
            for ev in block['ev']:
                held = te(ev, held)
            return held
        IN, _ = C.forward(g, frozenset(), tr, lambda a, b: a & b)
        for gname in sorted(set(hits)):
            need = norm(guards[gname]['guard'])
            tainted = {}
            # pass 1: locals bound (under the lock) to something derived from the guarded variable
            changed = True
            while changed:
                changed = False
                for b in fn['blocks']:
                    for ev in b['ev']:
                        pairs = []
                        if ev.get('k') == 'decl':
                            pairs = [(v['n'], v.get('init'), v.get('t')) for v in ev['vars'] if v.get('init') is not None]
                        elif ev.get('k') == 'bin' and ev.get('op') == '=' and T.strip(ev['l']).get('k') == 'var':
                            pairs = [(T.strip(ev['l'])['n'], ev['r'], T.strip(ev['l']).get('t'))]
                        elif ev.get('k') == 'call' and ev.get('op') == '=' and ev.get('recv') is not None and \
                                T.strip(ev['recv']).get('k') == 'var' and ev.get('args'):
                            pairs = [(T.strip(ev['recv'])['n'], ev['args'][0], T.strip(ev['recv']).get('t'))]
                        for name, init, ti in pairs:
                            if name in tainted or init is None:
                                continue
                            src = any(isinstance(y, dict) and y.get('k') == 'var' and
                                      (y.get('n') == gname or y.get('n') in tainted) for y in T.walk(init))
                            if not src:
                                continue
                            tt = db.T(fn, ti) if isinstance(ti, int) else {}
                            c = tt.get('c') or tt.get('s') or ''
                            indirect = tt.get('ptr') or tt.get('ref') or c.rstrip().endswith(('*', '&')) or \
                                'iterator' in c or '_Node_' in c
                            if indirect:
                                tainted[name] = ev.get('ln')
                                changed = True
            for b in fn['blocks']:
                held = IN.get(b['id'], frozenset())
                for ev in b['ev']:
                    held_before = held
                    held = te(ev, held)
                    if ev.get('k') in ('dtor',):
                        continue
                    names = {y['n'] for y in T.walk(ev) if isinstance(y, dict) and y.get('k') == 'var'}
                    if gname in names:
                        nacc += 1
                        ok = need in held_before or need in held
                        chk.obligation(ok, {'function': fn['name'], 'line': ev.get('ln'), 'access': T.pstr(ev)[:50],
                                            'guard': need, 'held': ok})
                        if not ok:
                            chk.violation('C06.R6', fn, '%s accessed without %s' % (T.short(gname), T.short(need)),
                                          'the shared container %s is accessed without its guard: data race with a '
                                          'concurrent insertion (rehash)' % gname, line=ev.get('ln'), cfg=cfgname)
                    used = names & set(tainted)
                    if used and ev.get('k') not in ('decl',) and need not in held_before and need not in held:
                        # top-level events only: sub-expression elements repeat the same use
                        nacc += 1
                        chk.obligation(False, {'function': fn['name'], 'line': ev.get('ln'),
                                               'use of': sorted(used), 'derived from': gname, 'guard held': False})
                        chk.violation('C06.R6', fn, '%s used outside the critical section' % ','.join(sorted(used)),
                                      '%s (bound at line %s to an element of %s while %s was held) is used after '
                                      'the guard was released: a concurrent writer can free or move what it points '
                                      'to' % (','.join(sorted(used)), tainted[sorted(used)[0]], gname, T.short(need)),
                                      line=ev.get('ln'), cfg=cfgname)
                        break
    chk.count('c06.r6.guarded_accesses', nacc)


def rule_r7(chk, db, cfgname, tab):
    chk.rule('C06.R7', 'check-then-act stays in one critical section: a function that releases a guard and takes it again '
             're-tests the guarded state before it writes guarded fields in the later section (otherwise two threads '
             'that both passed the first test both apply the update)')
    guarded = {}
    for g in tab['guards']:
        for fld in g['fields']:
            guarded[(g['class'], fld)] = g
    n = 0
    for fn in db.functions.values():
        if not fn.get('blocks'):
            continue
        li = LockInfo(db, fn)
        # lock ids acquired more than once in this function
        byid = {}
        for (name, d), ids in li.acq.items():
            for i in ids:
                byid.setdefault(i, []).append((name, d))
        multi = {i: v for i, v in byid.items() if len(v) >= 2}
        if not multi:
            continue
        g = C.Cfg(fn)
        dom = g.dominators()
        te = lock_transfer(li)
        # block/index of each acquisition
        acq_at = {}
        for b in fn['blocks']:
            for ev in b['ev']:
                if ev.get('k') == 'decl':
                    for v in ev['vars']:
                        if (v['n'], v['d']) in li.acq:
                            acq_at[(v['n'], v['d'])] = (b['id'], ev.get('i', 0), ev.get('ln'))
        for lid, vars_ in multi.items():
            pts = sorted((acq_at[v] for v in vars_ if v in acq_at), key=lambda x: len(dom.get(x[0], ())))
            if len(pts) < 2:
                continue
            first, later = pts[0], pts[1:]
            for (lb, li_, lln) in later:
                if first[0] not in dom.get(lb, ()) and first[0] != lb:
                    continue        # alternative branches, not a sequence
                # writes of guarded fields dominated by the later acquisition
                writes = []
                tests = []
                for b in fn['blocks']:
                    if not (lb in dom.get(b['id'], ()) or b['id'] == lb):
                        continue
                    for ev in b['ev']:
                        if b['id'] == lb and ev.get('i', 0) <= li_:
                            continue
                        lhs = None
                        if ev.get('k') == 'bin' and ev.get('op', '').endswith('=') and ev['op'] not in ('==', '!=', '<=', '>='):
                            lhs = T.strip(ev['l'])
                        elif ev.get('k') == 'call' and ev.get('op', '').endswith('=') and \
                                ev['op'] not in ('==', '!=', '<=', '>=') and ev.get('recv') is not None:
                            lhs = T.strip(ev['recv'])
                        if lhs is not None and lhs.get('k') == 'mem' and (lhs.get('cls'), lhs.get('n')) in guarded:
                            writes.append((lhs['n'], ev.get('ln')))
                    cond, _ = C.branch_cond(b)
                    if cond is not None and any(isinstance(y, dict) and y.get('k') == 'mem' and
                                                (y.get('cls'), y.get('n')) in guarded for y in T.walk(cond)):
                        tests.append(b['id'])
                # only writes whose value derives from guarded state read in the EARLIER section are stale-data
                # updates: locals initialised/assigned from guarded fields before the re-acquisition, closed under
                # local data flow
                tainted = set()
                changed = True
                while changed:
                    changed = False
                    for b in fn['blocks']:
                        for ev in b['ev']:
                            pairs = []
                            if ev.get('k') == 'decl':
                                pairs = [(v['n'], v.get('init')) for v in ev['vars'] if v.get('init') is not None]
                            elif ev.get('k') == 'bin' and ev.get('op') == '=' and T.strip(ev['l']).get('k') == 'var':
                                pairs = [(T.strip(ev['l'])['n'], ev['r'])]
                            elif ev.get('k') == 'call' and ev.get('op') == '=' and ev.get('recv') is not None and \
                                    T.strip(ev['recv']).get('k') == 'var' and ev.get('args'):
                                pairs = [(T.strip(ev['recv'])['n'], ev['args'][0])]
                            for name, init in pairs:
                                if name in tainted:
                                    continue
                                before = (lb in dom.get(b['id'], ()) and b['id'] != lb) or \
                                    (b['id'] == lb and ev.get('i', 0) > li_)
                                src_guarded = (not before) and any(
                                    isinstance(y, dict) and y.get('k') == 'mem' and (y.get('cls'), y.get('n')) in guarded
                                    for y in T.walk(init))
                                src_tainted = any(isinstance(y, dict) and y.get('k') == 'var' and y.get('n') in tainted
                                                  for y in T.walk(init))
                                if src_guarded or src_tainted:
                                    tainted.add(name)
                                    changed = True
                stale = []
                for b in fn['blocks']:
                    if not (lb in dom.get(b['id'], ()) or b['id'] == lb):
                        continue
                    for ev in b['ev']:
                        if b['id'] == lb and ev.get('i', 0) <= li_:
                            continue
                        rhs = None
                        lhs = None
                        if ev.get('k') == 'bin' and ev.get('op', '').endswith('=') and ev['op'] not in ('==', '!=', '<=', '>='):
                            lhs, rhs = T.strip(ev['l']), ev['r']
                        elif ev.get('k') == 'call' and ev.get('op', '').endswith('=') and \
                                ev['op'] not in ('==', '!=', '<=', '>=') and ev.get('recv') is not None and ev.get('args'):
                            lhs, rhs = T.strip(ev['recv']), ev['args'][0]
                        if lhs is not None and lhs.get('k') == 'mem' and (lhs.get('cls'), lhs.get('n')) in guarded and \
                                any(isinstance(y, dict) and y.get('k') == 'var' and y.get('n') in tainted
                                    for y in T.walk(rhs)):
                            stale.append((lhs['n'], ev.get('ln')))
                writes = stale
                if not writes:
                    continue
                n += 1
                ok = bool(tests)
                chk.obligation(ok, {'function': fn['name'][:70], 'guard': lid, 're-acquired at line': lln,
                                    'guarded writes in the later section': writes[:4],
                                    'guarded state re-tested there': ok})
                if not ok:
                    chk.violation('C06.R7', fn, '%s re-acquired, writes %s without re-test' % (T.short(lid), writes[0][0]),
                                  'the function tests the guarded state under %s, releases it, and after taking it '
                                  'again writes %s without testing the state again: two threads that both saw the '
                                  'pending state both apply the update (a lost or doubled update, although every '
                                  'access is locked)' % (lid, ', '.join(sorted({w[0] for w in writes}))),
                                  line=writes[0][1], cfg=cfgname)
    chk.count('c06.r7.reacquisitions', n)


def main(chk, tier):
    import db as D
    configs = ['seq', 'par'] if tier == 'quick' else ['seq', 'par', 'seq-debug', 'par-debug']
    tab = load_table()
    for cfgname in configs:
        db = D.load(cfgname)
        chk.configs.append(cfgname)
        chk.units = len(db.units)
        chk.functions_analysed += len(db.functions)
        rule_r1(chk, db, cfgname, tab)
        rule_r1b(chk, db, cfgname)
        rule_r1c(chk, db, cfgname)
        rule_r2(chk, db, cfgname, tab)
        rule_r3(chk, db, cfgname, tab)
        rule_r4(chk, db, cfgname)
        rule_r5(chk, db, cfgname, tab)
        rule_r6(chk, db, cfgname, tab)
        rule_r7(chk, db, cfgname, tab)
    n = len(configs)
    chk.floor('c06.r1.accesses', 90 * n)
    chk.floor('c06.r1.lock_acquisitions', 15 * n)
    chk.floor('c06.r1b.ctx_accesses', 8 * n)
    chk.floor('c06.r1c.key_slot_accesses', 3 * n)
    chk.floor('c06.r2.counter_accesses', 1 * n)
    chk.floor('c06.r3.lock_classes', 4 * n)
    chk.floor('c06.r4.cas_sites', 1 * n)
    chk.floor('c06.r5.copy_operations', 1 * n)
    chk.floor('c06.r6.static_variables', 8 * n)
    chk.floor('c06.r6.guarded_accesses', 3 * n)
    return chk.finish(
        'Lockset (guarded-by) analysis of every access to the library\'s lazily mutated shared fields over the '
        'CFGs (with implicit destructors) of all functions, in both MANIFOLD_PAR configurations, plus atomic-only '
        'access to Manifold::ctx_ and hash-table key slots, single snapshot of the mesh-ID counter, an acyclic '
        'interprocedural lock-order graph and the strong-CAS protocol. Decides data-race freedom of the library\'s '
        'own shared mutable state under concurrent const calls; does not decide linearizability of the values '
        'observed nor races inside parallel kernels on thread-private Impl data.',
        assumptions=['objects of the guarded classes declared by value (or freshly make_shared) in a function are '
                     'thread-private until the function returns them',
                     'after the forcing call (GetPaths/GetImpl) on an object no const operation writes its lazy '
                     'fields again (transform_ is identity), so unlocked reads after forcing are race-free',
                     'lock identity is the syntactic access path of the mutex within one function'])
