"""C04 — results are bit-identical across schedules, thread counts and backends (structural clause).

Every schedule-dependent ordering / rounding source in the MANIFOLD_PAR=1 program is enumerated by shape:
  S1 atomic read-modify-write whose return value is used (slot allocation)
  S2 atomic accumulation on a floating-point lvalue
  S3 tbb::combinable (per-thread parts merged later)
  S4 push_back / emplace_back into a TBB concurrent container's element from parallel code
  S5 parallel reduce / transform_reduce over a floating-point type
  S7 tbb::task_group tasks
and each must be (a) followed by a total-order normaliser that the table names and the checker verifies
(the sort call exists in the named function and its comparator reads the listed fields), (b) reviewed as
order-insensitive, or (c) a recorded known finding.  A source the table does not mention is UNREVIEWED
-> violation, so new parallel code cannot dodge the rule.
"""
import json
import os

import cfg as C
import tree as T
from db import AnalysisBroken, VERIF

SKIP_FILES = ('src/parallel.h', 'src/vec.h', 'src/utils.h', 'src/iters.h', 'src/atomic_compat.h')


def load_table():
    return json.load(open(os.path.join(VERIF, 'rules', 'tables', 'c04.json')))


def strip_idx(s):
    out, depth = [], 0
    for ch in s:
        if ch == '[':
            depth += 1
            if depth == 1:
                out.append('[]')
        elif ch == ']':
            depth -= 1
        elif depth == 0:
            out.append(ch)
    return ''.join(out)


def root_name(f):
    """qualified name of the outermost enclosing function, template arguments removed"""
    return T.basename(f['name'].split('::<lambda@')[0])


def sources(db):
    out = {}
    for f in db.functions.values():
        if not f.get('blocks') or f['file'] in SKIP_FILES or f['file'].startswith('include/'):
            continue
        if T.basename(f.get('cls') or '').startswith('manifold::AtomicRef'):
            continue
        used = set()
        for b in f['blocks']:
            for ev in b['ev']:
                for x in T.walk(ev):
                    if x is not ev and 'i' in x and x.get('k') == 'call':
                        used.add(x['i'])
            t = b.get('term')
            if t and 'cond' in t:
                for x in T.walk(t['cond']):
                    if 'i' in x and x.get('k') == 'call':
                        used.add(x['i'])
        for b in f['blocks']:
            for ev in b['ev']:
                if ev.get('k') != 'call':
                    continue
                nm = T.short(ev.get('fn', ''))
                kind = tgt = None
                if nm == 'AtomicAdd' and ev.get('args'):
                    fp = db.T(f, ev).get('k') == 'f'
                    if fp:
                        kind = 'S2'
                    elif ev.get('i') in used:
                        kind = 'S1'
                    tgt = strip_idx(T.pstr(ev['args'][0]))
                elif nm in ('fetch_add', 'fetch_sub', 'exchange') and 'atomic' in (ev.get('mcls') or '').lower() and \
                        ev.get('recv') is not None:
                    if db.T(f, ev).get('k') == 'f':
                        kind = 'S2'
                    elif ev.get('i') in used:
                        kind = 'S1'
                    tgt = strip_idx(T.pstr(ev['recv']))
                elif nm in ('combine_each', 'combine', 'local') and 'combinable' in (ev.get('mcls') or '') and \
                        ev.get('recv') is not None:
                    kind, tgt = 'S3', strip_idx(T.pstr(ev['recv'])).replace('this->', '')
                elif nm == 'run' and 'task_group' in (ev.get('mcls') or ''):
                    kind, tgt = 'S7', strip_idx(T.pstr(ev['recv']))
                elif nm in ('reduce', 'transform_reduce') and T.basename(ev.get('fn', '')).startswith('manifold::'):
                    t = db.T(f, ev)
                    if t.get('k') == 'f' or 'double' in t.get('c', '') or 'float' in t.get('c', ''):
                        kind, tgt = 'S5', nm
                elif (ev.get('op') == '[]' or nm in ('emplace', 'insert', 'push_back', 'emplace_back')) and \
                        'concurrent' in (ev.get('mcls') or '') and (ev.get('mcls') or '').startswith('tbb::') and \
                        ev.get('recv') is not None:
                    kind, tgt = 'S4', strip_idx(T.pstr(ev['recv']))
                if kind:
                    key = (kind, root_name(f), tgt)
                    out.setdefault(key, []).append((f, ev.get('ln')))
    return out


def exact_reduction(db, f, ln):
    """the binary operator of the reduce/transform_reduce call at line ln only selects among its operands"""
    for b in f['blocks']:
        for ev in b['ev']:
            if ev.get('k') == 'call' and ev.get('ln') == ln and T.short(ev.get('fn', '')) in ('reduce', 'transform_reduce'):
                args = ev.get('args', [])
                # (policy?, first, last, init, op, [unary])
                ops = [a for a in args if any(isinstance(y, dict) and y.get('k') == 'lambda' for y in T.walk(a)) or
                       (T.strip_copy(a).get('k') == 'var' and T.strip_copy(a).get('s') == 'l')]
                if not ops:
                    return False
                op = ops[0]
                lam = [y for y in T.walk(op) if isinstance(y, dict) and y.get('k') == 'lambda']
                if not lam and T.strip_copy(op).get('k') == 'var':
                    nm = T.strip_copy(op)['n']
                    for bb in f['blocks']:
                        for ee in bb['ev']:
                            if ee.get('k') == 'decl':
                                for v in ee['vars']:
                                    if v['n'] == nm:
                                        lam = [y for y in T.walk(v.get('init') or {}) if isinstance(y, dict) and
                                               y.get('k') == 'lambda']
                if not lam or not lam[0].get('fk'):
                    return False
                fk = lam[0]['fk']
                bodies = [db.functions[fk]] if fk in db.functions else []
                if not bodies and '<lambda@' in fk:
                    # generic lambda: the event names the template pattern, the bodies are its instantiations
                    pos = fk[:fk.rindex('<lambda@')] + fk[fk.rindex('<lambda@'):].split('>')[0] + '>'
                    bodies = [g for k, g in db.functions.items() if k.startswith(pos) and g.get('blocks')]
                if not bodies:
                    return False
                for body in bodies:
                  for bb in body['blocks']:
                      for ee in bb['ev']:
                          for y in T.walk(ee):
                              if not isinstance(y, dict):
                                  continue
                              if y.get('k') == 'bin' and y.get('op') in ('+', '-', '*', '/', '+=', '-=', '*=', '/='):
                                  return False
                              if y.get('k') == 'call' and y.get('op') in ('+', '-', '*', '/', '+=', '-=', '*=', '/='):
                                  return False
                              if y.get('k') == 'call' and not y.get('op') and \
                                      T.short(y.get('fn', '')) not in ('min', 'max', 'isnan', 'make_pair', 'pair', 'fmin',
                                                                       'fmax', 'isfinite', 'get', 'operator()'):
                                  return False
                return True
    return False


def has_call(db, fname, callee, arity=None):
    """a call to `callee` (short name) exists in the family of function `fname`"""
    n = 0
    for f in db.functions.values():
        if root_name(f) != fname or not f.get('blocks'):
            continue
        for b in f['blocks']:
            for ev in b['ev']:
                for x in T.walk(ev):
                    if x.get('k') == 'call' and T.short(x.get('fn', '')) == callee:
                        n += 1
    return n


def normaliser_bypass(db, nzfn, call, srcfn, src_f=None, src_ln=None):
    """the normaliser function calls the source (srcfn) itself - e.g. Intersect12_ calls recorder.get() - and a path leads
    from that call to a normal return without passing a `call` (the sort): returns (line of the source call, line of the
    bypassing return's block) or None.  Paths that leave through a cancellation test are not bypasses (a cancelled
    result is discarded)."""
    f = root_fn(db, nzfn)
    if not f or not f.get('blocks'):
        return False, None
    g = C.Cfg(f)
    if not g.ok():
        return False, None
    srcs, sorts, cancel = [], set(), set()
    for b in f['blocks']:
        for ev in b['ev']:
            if ev.get('k') != 'call':
                continue
            callee = db.functions.get(ev.get('fk'))
            if callee is not None and T.basename(callee['name']) == srcfn:
                srcs.append((b['id'], ev.get('ln')))
            # the source sits in a lambda of this very function (parallel loop body): the statement that runs the lambda
            if src_f is not None and src_f.get('key') != f.get('key') and root_name(src_f) == nzfn and \
                    any(isinstance(y, dict) and y.get('k') == 'lambda' and y.get('fk') == src_f.get('key')
                        for y in T.walk(ev)):
                srcs.append((b['id'], ev.get('ln')))
            if any(isinstance(y, dict) and y.get('k') == 'call' and T.short(y.get('fn', '')) == call
                   for y in T.walk(ev)):
                sorts.add(b['id'])
            # ... or the sort runs inside the lambda this statement executes (a per-bucket std::sort in a for_each_n)
            for y in T.walk(ev):
                if isinstance(y, dict) and y.get('k') == 'lambda' and y.get('fk') in db.functions:
                    lf = db.functions[y['fk']]
                    if any(isinstance(z, dict) and z.get('k') == 'call' and T.short(z.get('fn', '')) == call
                           for bb in lf.get('blocks', []) for e2 in bb['ev'] for z in T.walk(e2)):
                        sorts.add(b['id'])
        cond, _ = C.branch_cond(b)
        if cond is not None and 'IsCancelled' in T.pstr(cond):
            cancel.add(b['id'])
    for (sb, ln) in srcs:
        if sb in sorts:
            continue
        seen, work = set(), [sb]
        while work:
            y = work.pop()
            if y in seen:
                continue
            seen.add(y)
            for t in g.succ.get(y, []):
                if t is None or t < 0 or t in sorts:
                    continue
                if y in cancel:
                    # only the not-cancelled edge continues the computation; the cancelled one returns a discarded value
                    pass
                if t == g.exit:
                    if y not in cancel and not any(p in cancel for p in g.pred.get(y, [])):
                        return True, (ln, (g.blocks[y]['ev'] or [{}])[-1].get('ln'))
                    continue
                work.append(t)
    return bool(srcs), None


def comparator_reads(db, spec):
    """every listed field is mentioned by the comparator: either <class>::operator< or the lambda(s)
    passed to the sort call in <function>"""
    want = set(spec['fields'])
    got = set()
    if 'class' in spec:
        for f in db.functions.values():
            if T.basename(f.get('cls') or '').endswith(spec['class']) and f.get('op') == '<' and f.get('blocks'):
                for b in f['blocks']:
                    for ev in b['ev']:
                        for x in T.walk(ev):
                            if x.get('k') == 'mem':
                                got.add(x['n'])
    if 'lambda_in' in spec:
        for f in db.functions.values():
            if root_name(f) == spec['lambda_in'] and f.get('kind') == 'lambda' and f.get('blocks'):
                ret_bool = db.T(f, f['ret']).get('k') == 'b'
                if not ret_bool or len(f['params']) != 2:
                    continue
                for b in f['blocks']:
                    for ev in b['ev']:
                        for x in T.walk(ev):
                            if x.get('k') == 'mem':
                                got.add(x['n'])
                            if x.get('k') == 'var':
                                got.add(x['n'])
    return want <= got, sorted(want - got)


MUTATORS = {'push_back', 'emplace_back', 'insert', 'emplace', 'clear', 'resize', 'pop_back', 'erase', 'swap'}


def rule_tasks(chk, db, cfgname):
    chk.rule('C04.2', 'a tbb::task_group task writes shared (by-reference captured) state only through a slot indexed '
             'by a by-value capture (results[i] = ..., map[key] = ...): it appends to no shared sequence and advances '
             'no shared counter, so nothing it publishes depends on the order in which tasks finish')
    n = 0
    for f in db.functions.values():
        if not f.get('blocks'):
            continue
        for b in f['blocks']:
            for ev in b['ev']:
                if not (ev.get('k') == 'call' and T.short(ev.get('fn', '')) == 'run' and
                        'task_group' in (ev.get('mcls') or '')):
                    continue
                lams = [x for x in T.walk(ev) if isinstance(x, dict) and x.get('k') == 'lambda' and
                        x.get('fk') in db.functions]
                for lam in lams[:1]:
                    n += 1
                    byval = {c['n'] for c in lam.get('caps', []) if not c.get('ref')}
                    byref = {c['n'] for c in lam.get('caps', []) if c.get('ref')}
                    body = db.functions[lam['fk']]
                    bad = []
                    for bb in body['blocks']:
                        for e in bb['ev']:
                            lhs = None
                            what = None
                            if e.get('k') == 'bin' and e.get('op', '').endswith('=') and \
                                    e['op'] not in ('==', '!=', '<=', '>='):
                                lhs, what = e['l'], 'assignment'
                            elif e.get('k') == 'call' and e.get('op', '').endswith('=') and \
                                    e['op'] not in ('==', '!=', '<=', '>=') and e.get('recv') is not None:
                                lhs, what = e['recv'], 'assignment'
                            elif e.get('k') == 'un' and e.get('op') in ('++', '--'):
                                lhs, what = e['e'], 'counter update'
                            elif e.get('k') == 'call' and e.get('recv') is not None and \
                                    T.short(e.get('fn', '')) in MUTATORS and not (e.get('mcls') or '').startswith('tbb::'):
                                lhs, what = e['recv'], T.short(e['fn']) + '()'
                            if lhs is None:
                                continue
                            root = T.root_of(T.strip_copy(lhs))
                            if root is None or root.get('k') != 'var' or root.get('n') not in byref:
                                continue
                            t = db.T(body, root)
                            if 'atomic' in (t.get('c') or t.get('s') or ''):
                                continue          # atomics are S1 sources with their own disposition
                            # slot write: a subscript on the path whose index is a by-value capture
                            slot = False
                            for x in T.walk(T.strip_copy(lhs)):
                                if not isinstance(x, dict):
                                    continue
                                idx = None
                                if x.get('k') == 'sub':
                                    idx = x.get('idx')
                                elif x.get('k') == 'call' and x.get('op') == '[]' and x.get('args'):
                                    idx = x['args'][0]
                                if idx is not None:
                                    i0 = T.strip_copy(idx)
                                    if i0.get('k') == 'var' and i0['n'] in byval:
                                        slot = True
                            if what != 'assignment' or not slot:
                                bad.append((T.pstr(e)[:60], e.get('ln'), what))
                    chk.obligation(not bad, {'function': f['name'][:70], 'line': ev.get('ln'),
                                             'by-value captures': sorted(byval), 'unslotted shared writes': bad[:3]})
                    for txt, ln, what in bad[:3]:
                        chk.violation('C04.2', f, 'task %s of shared state: %s' % (what, txt[:40]),
                                      'a task_group task performs %s on state captured by reference (%s) that is not '
                                      'a slot indexed by a by-value capture: what it publishes depends on the order '
                                      'in which tasks complete' % (what, txt), line=ln, cfg=cfgname)
    chk.count('c04.2.tasks', n)


def rule_union_roots(chk, db, cfgname):
    chk.rule('C04.3', 'the identity of a union-find root (DisjointSets::find) is consumed only when every unite on that '
             'structure ran sequentially: which element becomes the root of a chain depends on the order of the unions, '
             'so roots produced by unions issued from a parallel region are schedule-dependent (the partition, '
             'consumed through connectedComponents, is not)')
    n = 0
    for f in db.functions.values():
        if not f.get('blocks') or '<lambda' in f['name'] or not f['file'].startswith('src/'):
            continue
        ufs = set()
        for b in f['blocks']:
            for e in b['ev']:
                if e.get('k') == 'decl':
                    for v in e['vars']:
                        if 'DisjointSets' in (db.T(f, v['t']).get('c') or ''):
                            ufs.add(v['n'])
        if not ufs:
            continue
        fam = [f] + [g for k, g in db.functions.items() if k.startswith(f['key'] + '::<lambda@')]
        for uf in sorted(ufs):
            finds = []
            for ff in fam:
                for b in ff['blocks']:
                    for e in b['ev']:
                        if e.get('k') == 'call' and T.short(e.get('fn', '')) == 'find' and e.get('recv') is not None and \
                                (T.root_of(T.strip_copy(e['recv'])) or {}).get('n') == uf:
                            finds.append(e.get('ln'))
            # lambdas that unite on uf
            uniting = {}
            for ff in fam[1:]:
                for b in ff['blocks']:
                    for e in b['ev']:
                        if e.get('k') == 'call' and T.short(e.get('fn', '')) == 'unite' and e.get('recv') is not None and \
                                (T.root_of(T.strip_copy(e['recv'])) or {}).get('n') == uf:
                            uniting[ff['key']] = e.get('ln')
            if not uniting:
                chk.count('c04.3.union_finds')
                chk.obligation(True, {'function': f['name'][:60], 'union-find': uf, 'unions': 'sequential (no lambda)'})
                continue
            # names bound to those lambdas, and recorders wrapping them
            names = {}
            for ff in fam:
                for b in ff['blocks']:
                    for e in b['ev']:
                        if e.get('k') == 'decl':
                            for v in e['vars']:
                                for y in T.walk(v.get('init') or {}):
                                    if isinstance(y, dict) and y.get('k') == 'lambda' and y.get('fk') in uniting:
                                        names[v['n']] = y['fk']
            changed = True
            while changed:
                changed = False
                for ff in fam:
                    for b in ff['blocks']:
                        for e in b['ev']:
                            if e.get('k') == 'decl':
                                for v in e['vars']:
                                    if v['n'] not in names and any(isinstance(y, dict) and y.get('k') == 'var' and
                                                                   y.get('n') in names for y in T.walk(v.get('init') or {})):
                                        names[v['n']] = 'wrapper'
                                        changed = True
            par = []
            for ff in fam:
                for b in ff['blocks']:
                    for e in b['ev']:
                        if e.get('k') != 'call':
                            continue
                        m = T.short(e.get('fn', ''))
                        mentions = any(isinstance(y, dict) and ((y.get('k') == 'var' and y.get('n') in names) or
                                                                (y.get('k') == 'lambda' and y.get('fk') in uniting))
                                       for a in e.get('args', []) for y in T.walk(a))
                        if not mentions:
                            continue
                        if m == 'Collisions':
                            p = T.arg_of(e, 'parallel')
                            p0 = T.strip_copy(p) if p is not None else None
                            seq = p0 is not None and p0.get('k') == 'bool' and p0.get('v') in (False, 0)
                            if not seq:
                                par.append((e.get('ln'), 'Collisions(parallel = %s)' % (T.pstr(p)[:30] if p is not None
                                                                                         else 'default true')))
                        elif m in ('for_each', 'for_each_n'):
                            pol = T.pstr(e['args'][0]) if e.get('args') else ''
                            if 'ExecutionPolicy::Seq' not in pol:
                                par.append((e.get('ln'), '%s(%s)' % (m, pol[:30])))
            n += 1
            chk.count('c04.3.union_finds')
            ok = not (par and finds)
            reviewed = None
            if not ok:
                for r in load_table().get('union_roots_reviewed', []):
                    if r['function'] == T.basename(f['name']) and r['union_find'] == uf:
                        reviewed = r['reason']
                        ok = True
            chk.obligation(ok, {'function': f['name'][:60], 'union-find': uf, 'parallel unions': par[:3],
                                'find() consumed at lines': finds[:4], 'reviewed': reviewed})
            if not ok:
                chk.violation('C04.3', f, 'roots of %s consumed after parallel unions' % uf,
                              'unions on %s are issued from a parallel region (%s) and the root identity returned by '
                              'find() is consumed at line %s: which element represents a cluster depends on the '
                              'thread schedule' % (uf, par[0][1], finds[0]), line=finds[0], cfg=cfgname)
    chk.count('c04.3.lambda_unions', n)


def rule_parallel_writes(chk, db, cfgname):
    chk.rule('C04.4', 'inside the lambda of a parallel for_each / for_each_n every non-atomic write to shared (captured by '
             'reference / this) state goes to a slot indexed by the loop variable (an affine expression of it and of '
             'inner constant-range loop variables), or the write site is reviewed in tables/c04.json with the reason '
             'why concurrent iterations cannot conflict (claimed by an atomic exchange, injective index map, all '
             'writers store the same value); a new data-indexed write is a write-write race whose winner depends on '
             'the schedule')
    reviewed = {(r['function'], r['target']): r for r in load_table().get('parallel_writes_reviewed', [])}
    used = set()
    n = 0
    for f in db.functions.values():
        if not f.get('blocks') or not f['file'].startswith('src/') or f['file'].endswith('parallel.h'):
            continue
        for b in f['blocks']:
            for e in b['ev']:
                if e.get('k') != 'call' or T.short(e.get('fn', '')) not in ('for_each', 'for_each_n') or \
                        not e.get('fn', '').startswith('manifold::') or not e.get('args'):
                    continue
                if 'ExecutionPolicy::Seq' in T.pstr(e['args'][0]):
                    continue
                lams = [x for x in T.walk(e['args'][-1]) if isinstance(x, dict) and x.get('k') == 'lambda' and
                        x.get('fk') in db.functions]
                for lam in lams[:1]:
                    body = db.functions[lam['fk']]
                    params = {p['n'] for p in body['params']}
                    locals_ = set()
                    const_loop = set()
                    for bb in body['blocks']:
                        for ee in bb['ev']:
                            if ee.get('k') == 'decl':
                                for v in ee['vars']:
                                    locals_.add(v['n'])
                    # range-for variables over an initializer list {0,1,2}: constant-range inner loop variables
                    for bb in body['blocks']:
                        for ee in bb['ev']:
                            if ee.get('k') == 'decl':
                                for v in ee['vars']:
                                    i0 = T.strip_copy(v['init']) if v.get('init') is not None else {}
                                    if v['n'].startswith('__range') and i0.get('k') in ('ilist', 'ctor'):
                                        const_loop.add(v['n'])
                    inner = {v for v in locals_ if not v.startswith('__')}
                    # locals that are affine in the loop variable (no table look-up in their initialiser)
                    affine = set(params)
                    grew = True
                    while grew:
                        grew = False
                        for b3 in body['blocks']:
                            for e3 in b3['ev']:
                                if e3.get('k') == 'decl':
                                    for v in e3['vars']:
                                        if v['n'] in affine or v.get('init') is None:
                                            continue
                                        ini = v['init']
                                        nm = {y['n'] for y in T.walk(ini) if isinstance(y, dict) and y.get('k') == 'var'}
                                        look = any(isinstance(y, dict) and (y.get('k') == 'sub' or (
                                            y.get('k') == 'call' and y.get('op') not in ('+', '-', '*')))
                                            for y in T.walk(ini))
                                        if nm & affine and not look and not (nm & (inner - affine)):
                                            affine.add(v['n'])
                                            grew = True
                    for bb in body['blocks']:
                        for ee in bb['ev']:
                            lhs = None
                            if ee.get('k') == 'bin' and ee.get('op', '').endswith('=') and \
                                    ee['op'] not in ('==', '!=', '<=', '>='):
                                lhs = ee['l']
                            elif ee.get('k') == 'call' and ee.get('op', '').endswith('=') and \
                                    ee['op'] not in ('==', '!=', '<=', '>=') and ee.get('recv') is not None:
                                lhs = ee['recv']
                            if lhs is None:
                                continue
                            l0 = T.strip_copy(lhs)
                            root = T.root_of(l0)
                            if root is None:
                                continue
                            rn = root.get('n') if root.get('k') == 'var' else ('this' if root.get('k') == 'this' else None)
                            if rn is None or rn in locals_ or rn in params:
                                continue
                            # the subscripts on the access path of the written object itself (a subscript nested inside
                            # another index expression - table[i] in out[table[i]] - selects data, not the slot)
                            idxs = []
                            y = l0
                            while isinstance(y, dict):
                                if y.get('k') == 'sub':
                                    idxs.append(y.get('idx'))
                                    y = T.strip_copy(y['base'])
                                elif y.get('k') == 'call' and y.get('op') == '[]' and y.get('args') and \
                                        y.get('recv') is not None:
                                    idxs.append(y['args'][0])
                                    y = T.strip_copy(y['recv'])
                                elif y.get('k') == 'mem' and isinstance(y.get('base'), dict):
                                    y = T.strip_copy(y['base'])
                                else:
                                    break

                            def slot(ix):
                                names = {y['n'] for y in T.walk(ix) if isinstance(y, dict) and y.get('k') == 'var'}
                                lookups = [y for y in T.walk(ix) if isinstance(y, dict) and
                                           (y.get('k') == 'sub' or (y.get('k') == 'call' and
                                                                    y.get('op') not in ('+', '-', '*')))]
                                others = names - params - {v for v in inner}
                                # locals that are themselves data (initialised from a lookup) are not slots
                                for nm in names & inner:
                                    for b3 in body['blocks']:
                                        for e3 in b3['ev']:
                                            if e3.get('k') == 'decl':
                                                for v in e3['vars']:
                                                    if v['n'] == nm and v.get('init') is not None and any(
                                                            isinstance(y, dict) and (y.get('k') == 'sub' or
                                                                                     y.get('k') == 'call')
                                                            for y in T.walk(v['init'])) and \
                                                            not nm.startswith('__'):
                                                        i0 = T.strip_copy(v['init'])
                                                        if not (i0.get('k') == 'call' and i0.get('op') == '*'):
                                                            return False
                                return bool(names & affine) and not lookups
                            if idxs and any(slot(ix) for ix in idxs):
                                continue
                            base = l0
                            while base.get('k') in ('sub', 'mem') or (base.get('k') == 'call' and base.get('op') == '[]'):
                                if base.get('k') == 'sub':
                                    base = T.strip_copy(base['base'])
                                elif base.get('k') == 'mem':
                                    nxt = T.strip_copy(base['base'])
                                    if nxt.get('k') == 'this':
                                        break
                                    base = nxt
                                else:
                                    base = T.strip_copy(base['recv'])
                            tgt = base.get('n') or T.pstr(base)[:30]
                            key = (root_name(f), tgt)
                            n += 1
                            r = reviewed.get(key)
                            if r:
                                used.add(key)
                            chk.obligation(r is not None, {'function': key[0][:60], 'line': ee.get('ln'),
                                                           'write': T.pstr(l0)[:50],
                                                           'reviewed': r['reason'][:100] if r else 'UNREVIEWED'})
                            if r is None:
                                chk.violation('C04.4', f, 'data-indexed parallel write to %s' % tgt,
                                              'the parallel loop at line %s writes %s, whose slot is chosen by data, not by '
                                              'the loop index, without an atomic: two iterations that pick the same slot '
                                              'race, and the surviving value depends on the schedule' %
                                              (e.get('ln'), T.pstr(l0)[:50]), line=ee.get('ln'), cfg=cfgname)
    for key in reviewed:
        if key not in used:
            raise AnalysisBroken('C04.4: reviewed parallel write %s no longer matches a site (table stale)' % list(key))
    chk.count('c04.4.data_indexed_writes', n)


def main(chk, tier):
    import db as D
    configs = ['par'] if tier == 'quick' else ['par', 'par-debug']
    tab = load_table()
    chk.rule('C04.1', 'every schedule-dependent source (S1 slot allocation, S2 floating-point atomic accumulation, S3 '
             'combinable merge, S4 concurrent container append, S5 parallel floating-point reduction, S7 task group) '
             'of the TBB configuration is followed by a verified total-order normaliser, is reviewed as '
             'order-insensitive, or is a recorded finding; unreviewed sources are violations')
    entries = {}
    for e in tab['sources']:
        entries[(e['kind'], e['function'], e['target'])] = e
    for cfgname in configs:
        db = D.load(cfgname)
        chk.configs.append(cfgname)
        chk.units = len(db.units)
        chk.functions_analysed += len(db.functions)
        srcs = sources(db)
        # a source that moved into a helper CALLED BY the function the table names is the same reviewed source
        # (extract-function refactorings): remap its key
        callees = {}
        for ff in db.functions.values():
            if ff.get('blocks'):
                r = root_name(ff)
                for b in ff['blocks']:
                    for ev in b['ev']:
                        if ev.get('k') == 'call' and ev.get('fk') in db.functions:
                            callees.setdefault(r, set()).add(root_name(db.functions[ev['fk']]))
        remapped = {}
        for key in list(srcs):
            if key in entries:
                continue
            kind, fn, tgt = key
            for (k2, fn2, t2) in entries:
                if k2 == kind and t2 == tgt and (k2, fn2, t2) not in srcs and fn in callees.get(fn2, ()):
                    remapped[key] = (k2, fn2, t2)
        for old_key, new_key in remapped.items():
            srcs[new_key] = srcs.pop(old_key)
        seen = set()
        for key, sites in sorted(srcs.items()):
            kind, fn, tgt = key
            f, ln = sites[0]
            chk.count('c04.1.sources')
            chk.count('c04.1.' + kind)
            e = entries.get(key)
            if kind == 'S5' and exact_reduction(db, f, ln):
                # min/max-only reductions are exact, commutative and associative whatever the split: no review needed,
                # wherever the call lives (so extracting it into a helper changes nothing)
                seen.add(key)
                chk.obligation(True, {'source': list(key), 'line': ln, 'disposition':
                                      'order-insensitive: the operator only selects (min/max/compare), no arithmetic'})
                chk.count('c04.1.exact_reductions')
                continue
            if e is None:
                chk.obligation(False, {'source': list(key), 'line': ln, 'disposition': 'UNREVIEWED'})
                chk.violation('C04.1', f, '%s %s %s' % key,
                              'schedule-dependent source (%s on %s) that tables/c04.json does not review: its '
                              'ordering/rounding can reach the output' % (kind, tgt), line=ln, cfg=cfgname)
                continue
            seen.add(key)
            d = e['disposition']
            if d == 'normalised':
                nz = e['normaliser']
                n = has_call(db, nz['function'], nz['call'])
                ok = n >= nz.get('min_calls', 1)
                why = '%s() called %d times in %s' % (nz['call'], n, nz['function'])
                if ok and 'comparator' in nz:
                    ok, missing = comparator_reads(db, nz['comparator'])
                    why += '; comparator reads %s' % nz['comparator']['fields'] if ok else \
                        '; comparator no longer reads %s' % missing
                if ok:
                    applies, byp = normaliser_bypass(db, nz['function'], nz['call'], fn, f, ln)
                    if applies:
                        chk.count('c04.1.normaliser_paths_checked')
                        why += '; every path from the source call to a normal return passes it'
                    if byp:
                        ok = False
                        why += '; but the path from the source call at line %s to the return at line %s skips it' % byp
                chk.obligation(ok, {'source': list(key), 'normaliser': why})
                if not ok:
                    chk.violation('C04.1', f, '%s %s %s' % key,
                                  'the total-order normaliser for this source is gone or no longer total (%s): '
                                  'arrival order reaches the output' % why, line=ln, cfg=cfgname)
            elif d == 'order_insensitive':
                chk.obligation(True, {'source': list(key), 'reviewed': e['reason'][:120]})
                chk.count('c04.1.reviewed')
            elif d == 'known_finding':
                chk.obligation(False, {'source': list(key), 'disposition': 'known finding'})
                chk.violation('C04.1', root_fn(db, fn) or f, '%s %s %s' % key,
                              'schedule-dependent source with no total-order normaliser: ' + e['reason'], line=ln,
                              cfg=cfgname)
            else:
                raise AnalysisBroken('C04: bad disposition %s' % d)
        rule_tasks(chk, db, cfgname)
        rule_union_roots(chk, db, cfgname)
        rule_parallel_writes(chk, db, cfgname)
        # table entries that no longer match a source: the table is stale (not a pass)
        for key, e in entries.items():
            if key not in seen and not e.get('optional') and key[0] != 'S5':
                raise AnalysisBroken('C04: table entry %s matches no source in config %s (anchor moved)'
                                     % (list(key), cfgname))
    n = len(configs)
    chk.floor('c04.1.sources', 30 * n)
    chk.floor('c04.2.tasks', 2 * n)
    chk.floor('c04.3.union_finds', 3 * n)
    return chk.finish(
        'Shape-based enumeration of every schedule-dependent construct in the MANIFOLD_PAR=1 translation units and a '
        'per-source disposition check against a reviewed table: normalisers are verified to exist (and their '
        'comparators to read every field that makes the order total), order-insensitive consumers carry a stated '
        'reason, confirmed nondeterminism is a known finding, anything new is UNREVIEWED. Decides that no '
        'unreviewed arrival order or floating-point summation order can reach an output; does not decide that the '
        'serial and parallel algorithms compute the same function.',
        assumptions=['order-insensitivity reasons in tables/c04.json are reviewed by reading the consumers',
                     'the serial configuration has no schedule (sources are enumerated in the TBB configuration)'])


def root_fn(db, name):
    for f in db.functions.values():
        if T.basename(f['name']) == name and f.get('kind') != 'lambda':
            return f
    return None
