"""C12 — Offset, Hull, Decompose, Simplify (provenance and framing clauses).

C12.1  provenance: in SimplifyRing, FilterSmallContours, HullImpl and DecomposeByContainment every value that reaches
       the returned container is a copy of an element of the input parameter (x[i], *it, a range-for element, or an
       element of a local filled only that way); no computed coordinate is ever stored.  Hence Simplify only deletes
       vertices, Hull's vertices are input points, Decompose returns input rings.
C12.1b order: SimplifyRing emits its survivors in one loop over an index that only increases, indexing the input
       ring with that index ("each ring's output vertices are an in-order subset of its input vertices").
C12.2  Offset frame (shared with C11.2): non-finite arguments give {}, the input is returned only for delta == 0 or
       an empty input, every other return passes ApplyFillRule(…, Add); the round-join segment count is clamped
       before use.
Distance to the region, monotonicity in delta, miter bounds, hull containment and area partition are statements
about every point of the plane and are not decided."""
import cfg as C
import tree as T
import c11
from db import AnalysisBroken

TARGETS = {
    'SimplifyRing': 'ring',
    'FilterSmallContours': 'paths',
    'HullImpl': 'points',
    'DecomposeByContainment': 'polys',
}
ARITH = {'+', '-', '*', '/', '+=', '-=', '*=', '/='}


def unwrap(n):
    return c11.unwrap(n)


class Prov:
    def __init__(self, db, fn, param):
        self.db, self.fn, self.param = db, fn, param
        self.range_of = {}      # element var -> range expression root var
        self.iter_of = {}       # iterator var -> container var
        rng = {}
        for b in fn['blocks']:
            for e in b['ev']:
                if e.get('k') != 'decl':
                    continue
                for v in e['vars']:
                    if v.get('init') is None:
                        continue
                    i = unwrap(v['init'])
                    if v['n'].startswith('__range'):
                        r = T.root_of(i)
                        if r is not None and r.get('k') == 'var':
                            rng[v['n']] = r['n']
                    elif i.get('k') == 'call' and i.get('op') == '*' and i.get('recv') is not None:
                        r = unwrap(i['recv'])
                        if r.get('k') == 'var' and r['n'].startswith('__begin'):
                            self.range_of[v['n']] = '__range' + r['n'][len('__begin'):]
                    elif i.get('k') == 'call' and T.short(i.get('fn', '')) in ('begin', 'rbegin', 'cbegin', 'crbegin') \
                            and i.get('recv') is not None:
                        r = T.root_of(unwrap(i['recv']))
                        if r is not None and r.get('k') == 'var':
                            self.iter_of[v['n']] = r['n']
        self.range_of = {k: rng.get(v) for k, v in self.range_of.items() if rng.get(v)}
        self.pure = {param}
        self.appends = {}       # container -> [(expr, line)]
        for b in fn['blocks']:
            for e in b['ev']:
                if e.get('k') == 'call' and e.get('recv') is not None and \
                        T.short(e.get('fn', '')) in ('push_back', 'emplace_back') and e.get('args'):
                    r = T.root_of(unwrap(e['recv']))
                    if r is not None and r.get('k') == 'var':
                        self.appends.setdefault(r['n'], []).append((e['args'][0], e.get('ln')))
        changed = True
        while changed:
            changed = False
            for cname, vals in self.appends.items():
                if cname in self.pure:
                    continue
                if vals and all(self.pure_elem(v) for v, _ in vals) and not self.other_writes(cname):
                    self.pure.add(cname)
                    changed = True

    def other_writes(self, cname):
        """element assignment / resize-with-value / insert into the container by other means"""
        for b in self.fn['blocks']:
            for e in b['ev']:
                lhs = None
                if e.get('k') == 'bin' and e.get('op') == '=':
                    lhs = e['l']
                elif e.get('k') == 'call' and e.get('op') == '=' and e.get('recv') is not None:
                    lhs = e['recv']
                if lhs is not None:
                    l0 = unwrap(lhs)
                    r = T.root_of(l0)
                    if r is not None and r.get('k') == 'var' and r['n'] == cname and l0.get('k') != 'var':
                        return True
                if e.get('k') == 'call' and e.get('recv') is not None and \
                        T.short(e.get('fn', '')) in ('insert', 'assign', 'resize', 'emplace') :
                    r = T.root_of(unwrap(e['recv']))
                    if r is not None and r.get('k') == 'var' and r['n'] == cname:
                        return True
        return False

    def pure_elem(self, expr):
        """expr denotes (a copy of) an element, or the whole, of a pure container"""
        n = unwrap(expr)
        k = n.get('k')
        if k == 'var':
            if n['n'] in self.pure:
                return True
            if n['n'] in self.range_of:
                return self.range_of[n['n']] in self.pure
            return False
        if k == 'sub':
            r = T.root_of(n)
            return r is not None and r.get('k') == 'var' and (r['n'] in self.pure or
                                                              self.range_of.get(r['n']) in self.pure)
        if k == 'call' and n.get('op') == '[]' and n.get('recv') is not None:
            return self.pure_elem(n['recv'])
        if k == 'call' and n.get('op') == '*' and n.get('recv') is not None:
            r = unwrap(n['recv'])
            if r.get('k') == 'var' and r['n'] in self.iter_of:
                return self.iter_of[r['n']] in self.pure
            return False
        if k in ('ilist', 'ctor') and not n.get('args'):
            return True          # an empty ring/component to be filled by later pure appends
        return False


def rule_provenance(chk, db, cfgname):
    chk.rule('C12.1', 'SimplifyRing, FilterSmallContours, HullImpl and DecomposeByContainment only copy elements of '
             'their input into what they return: every push_back into a container that reaches the return value is '
             'x[i] / *it / a range-for element of the input (or of a local filled only that way); no arithmetic '
             'result is stored')
    for short, pname in TARGETS.items():
        fs = [f for f in db.functions.values() if T.short(f['name']) == short and f.get('blocks') and
              '<lambda' not in f['name']]
        if len(fs) != 1:
            raise AnalysisBroken('C12.1: %s not found uniquely (%d)' % (short, len(fs)))
        f = fs[0]
        if not any(p['n'] == pname for p in f['params']):
            raise AnalysisBroken('C12.1: parameter %s of %s vanished' % (pname, short))
        pv = Prov(db, f, pname)
        # returned containers
        rets = []
        for b in f['blocks']:
            for e in b['ev']:
                if e.get('k') == 'return' and 'e' in e:
                    v = unwrap(e['e'])
                    rets.append((v, e.get('ln')))
        for v, ln in rets:
            chk.count('c12.1.returns')
            if v.get('k') in ('ilist', 'ctor') and not v.get('args'):
                ok, why = True, 'empty'
            elif v.get('k') == 'var':
                ok = v['n'] in pv.pure
                bad = [(T.pstr(x)[:40], l) for x, l in pv.appends.get(v['n'], []) if not pv.pure_elem(x)]
                why = 'copies of input elements only' if ok else 'stores %s' % (bad or 'written by other means')
            else:
                ok, why = False, T.pstr(v)[:50]
            chk.obligation(ok, {'function': f['name'], 'line': ln, 'returned': T.pstr(v)[:30], 'provenance': why})
            if not ok:
                chk.violation('C12.1', f, '%s returns non-input data' % short,
                              '%s returns %s: %s, so the result can contain a vertex or ring that was not in the '
                              'input (Simplify must only delete vertices; Hull/Decompose only select input points/'
                              'rings)' % (short, T.pstr(v)[:30], why), line=ln, cfg=cfgname)
        for cname, vals in pv.appends.items():
            chk.count('c12.1.appends', len(vals))


def rule_order(chk, db, cfgname):
    chk.rule('C12.1b', 'SimplifyRing emits survivors in a single loop whose index only increases and indexes the input '
             'ring with that index (in-order subset)')
    fs = [f for f in db.functions.values() if T.short(f['name']) == 'SimplifyRing' and f.get('blocks') and
          '<lambda' not in f['name']]
    f = fs[0]
    g = C.Cfg(f)
    loops = g.loops()
    n = 0
    for b in f['blocks']:
        for e in b['ev']:
            if e.get('k') == 'call' and T.short(e.get('fn', '')) == 'push_back' and e.get('recv') is not None and \
                    T.root_of(unwrap(e['recv'])) is not None and T.root_of(unwrap(e['recv'])).get('n') == 'out':
                n += 1
                a = unwrap(e['args'][0])
                idx = None
                if a.get('k') == 'call' and a.get('op') == '[]' and a.get('args'):
                    idx = unwrap(a['args'][0])
                elif a.get('k') == 'sub':
                    idx = unwrap(a['idx'])
                ok = False
                why = 'index is not a plain loop variable'
                if idx is not None and idx.get('k') == 'var':
                    body = None
                    for h, blocks in loops.items():
                        if b['id'] in blocks and (body is None or len(blocks) < len(body)):
                            body = blocks
                    if body is None:
                        why = 'not in a loop'
                    else:
                        ups, others = 0, 0
                        for bb in f['blocks']:
                            if bb['id'] not in body:
                                continue
                            for ee in bb['ev']:
                                if ee.get('k') == 'un' and unwrap(ee['e']).get('k') == 'var' and \
                                        unwrap(ee['e'])['n'] == idx['n']:
                                    if ee.get('op') == '++':
                                        ups += 1
                                    else:
                                        others += 1
                                if ee.get('k') == 'bin' and ee.get('op', '').endswith('=') and \
                                        ee['op'] not in ('==', '!=', '<=', '>=') and \
                                        unwrap(ee['l']).get('k') == 'var' and unwrap(ee['l'])['n'] == idx['n']:
                                    others += 1
                        ok = ups >= 1 and others == 0
                        why = 'index %s: %d increments, %d other writes in the loop' % (idx['n'], ups, others)
                chk.obligation(ok, {'function': f['name'], 'line': e.get('ln'), 'push': T.pstr(e)[:40], 'order': why})
                if not ok:
                    chk.violation('C12.1b', f, 'SimplifyRing output order',
                                  'the surviving vertices are not emitted by an increasing index over the input '
                                  'ring (%s): the output is not an in-order subset of the input' % why,
                                  line=e.get('ln'), cfg=cfgname)
    chk.count('c12.1b.output_pushes', n)


def rule_segments(chk, db, cfgname):
    chk.rule('C12.2b', 'the round-join segment count handed to OffsetContour is clamped to [3, kMaxRoundJoinSegments] '
             '(min(max(x, 3), kMax)) before use')
    fs = [f for f in db.fn('manifold::Offset') if f.get('blocks') and len(f['params']) == 5]
    f = fs[0]
    n = 0
    for b in f['blocks']:
        for e in b['ev']:
            if e.get('k') == 'call' and T.short(e.get('fn', '')) == 'OffsetContour':
                n += 1
                seg = unwrap(e['args'][-1])
                ok = False
                if seg.get('k') == 'var':
                    for kind, expr, ln in c11.local_defs(f, seg['n']):
                        if expr is None:
                            continue
                        s = T.pstr(expr)
                        if 'min(' in s and 'max(' in s and ',3)' in s.replace(' ', '') and 'kMaxRoundJoinSegments' in s:
                            ok = True
                chk.obligation(ok, {'function': f['name'], 'line': e.get('ln'), 'segments argument': T.pstr(seg)[:30],
                                    'clamped': ok})
                if not ok:
                    chk.violation('C12.2b', f, 'segment count not clamped',
                                  'OffsetContour receives a segment count that was not clamped to '
                                  '[3, kMaxRoundJoinSegments]: fewer than 3 segments cannot approximate a round join '
                                  'within its chordal error', line=e.get('ln'), cfg=cfgname)
    chk.count('c12.2b.offsetcontour_calls', n)
    # non-finite delta / coordinates are rejected before any ring is offset
    chk.rule('C12.2c', 'every OffsetContour call is dominated by the isfinite(delta) test and the isfinite test of the '
             'input coordinates')
    g = C.Cfg(f)
    dom = g.dominators()
    guards = {'delta': set(), 'coords': set()}
    for b in f['blocks']:
        cond, _ = C.branch_cond(b)
        if cond is None:
            continue
        for x in T.walk(cond):
            if isinstance(x, dict) and x.get('k') == 'call' and T.short(x.get('fn', '')) == 'isfinite':
                names = {y['n'] for a in x.get('args', []) for y in T.walk(a)
                         if isinstance(y, dict) and y.get('k') == 'var'}
                if 'delta' in names:
                    guards['delta'].add(b['id'])
                else:
                    guards['coords'].add(b['id'])
    for b in f['blocks']:
        for e in b['ev']:
            if e.get('k') == 'call' and T.short(e.get('fn', '')) == 'OffsetContour':
                d = dom.get(b['id'], set())
                # the coordinate test sits in a loop over the input: the loop header dominates, the test block need not
                okd = bool(guards['delta'] & d)
                okc = bool(guards['coords']) and all(
                    any(h in d for h, body in g.loops().items() if cb in body) or cb in d for cb in guards['coords'])
                chk.count('c12.2c.guards')
                chk.obligation(okd and okc, {'function': f['name'], 'line': e.get('ln'), 'isfinite(delta) dominates': okd,
                                             'isfinite(input) loop dominates': okc})
                if not (okd and okc):
                    chk.violation('C12.2c', f, 'Offset without finite-argument guard',
                                  'OffsetContour can be reached with a non-finite %s: the result is not the offset of '
                                  'any region' % ('delta' if not okd else 'input coordinate'), line=e.get('ln'),
                                  cfg=cfgname)


def rule_every_ring(chk, db, cfgname):
    chk.rule('C12.2d', 'manifold::Offset offsets every input ring: the OffsetContour call in the per-ring loop is '
             'controlled by nothing but the loop itself (a ring skipped before it - e.g. a hole under an inset - '
             'leaves its boundary out of the result)')
    f = [f for f in db.fn('manifold::Offset') if f.get('blocks') and len(f['params']) == 5][0]
    g = C.Cfg(f)
    loops = g.loops()
    n = 0

    def controls(bid):
        """(innermost loop body, conditions other than the loop's own and degenerate-ring tests that control bid)"""
        body = head = None
        for h, blocks in loops.items():
            if bid in blocks and (body is None or len(blocks) < len(body)):
                body, head = blocks, h
        extra = []
        if body is not None:
            work, seen = [bid], set()
            while work:
                y = work.pop()
                for d, k in g.control_deps(y):
                    if (d, k) in seen or d not in body:
                        continue
                    seen.add((d, k))
                    work.append(d)
                    cond, _ = C.branch_cond(g.blocks[d])
                    if d != head and cond is not None and '__begin' not in T.pstr(cond):
                        # skipping a degenerate ring (fewer than 3 vertices / empty) loses no boundary
                        calls = [y for y in T.walk(cond) if isinstance(y, dict) and y.get('k') == 'call']
                        degenerate = calls and all(T.short(y.get('fn', '')) in ('size', 'empty') for y in calls) \
                            and not any(isinstance(y, dict) and y.get('k') == 'var' and y.get('s') == 'p'
                                        for y in T.walk(cond))
                        if not degenerate:
                            extra.append(T.pstr(cond)[:60])
        return body, extra
    for b in f['blocks']:
        for e in b['ev']:
            if e.get('k') == 'call' and T.short(e.get('fn', '')) == 'OffsetContour':
                n += 1
                body, extra = controls(b['id'])
                ok = body is not None and not extra
                chk.obligation(ok, {'function': f['name'], 'line': e.get('ln'),
                                    'OffsetContour in the ring loop is conditional on': extra or 'nothing'})
                if not ok:
                    chk.violation('C12.2d', f, 'ring skipped under %s' % (extra[:1] or ['?'])[0],
                                  'some input rings are not offset (%s): the result lacks their offset boundary, so it '
                                  'is not the set of points within/farther than delta of the region' % '; '.join(extra),
                                  line=e.get('ln'), cfg=cfgname)
    # the offset ring must also REACH the union: the statement that stores the local holding OffsetContour's result
    # is controlled by nothing but the loop and degenerate-ring tests either
    results = set()
    for b in f['blocks']:
        for e in b['ev']:
            if e.get('k') == 'decl':
                for v in e['vars']:
                    if isinstance(v.get('init'), dict) and any(
                            isinstance(y, dict) and y.get('k') == 'call' and T.short(y.get('fn', '')) == 'OffsetContour'
                            for y in T.walk(v['init'])):
                        results.add(v['n'])
    m = 0
    for b in f['blocks']:
        for e in b['ev']:
            if e.get('k') == 'call' and T.short(e.get('fn', '')) in ('push_back', 'emplace_back') and any(
                    isinstance(y, dict) and y.get('k') == 'var' and y.get('n') in results
                    for a in e.get('args', []) for y in T.walk(a)):
                m += 1
                body, extra = controls(b['id'])
                ok = body is not None and not extra
                chk.obligation(ok, {'function': f['name'], 'line': e.get('ln'), 'store': T.pstr(e)[:50],
                                    'storing the offset ring is conditional on': extra or 'nothing'})
                if not ok:
                    chk.violation('C12.2d', f, 'offset ring dropped under %s' % (extra[:1] or ['?'])[0],
                                  'an offset ring is computed but kept out of the union under %s: a whole-ring test '
                                  '(orientation, area, extent) cannot tell a ring that vanished from one that only '
                                  'inverted locally, so part of the offset region is lost' % '; '.join(extra),
                                  line=e.get('ln'), cfg=cfgname)
    if results and not m:
        raise AnalysisBroken('C12.2d: the result of OffsetContour (%s) is never stored' % sorted(results))
    chk.count('c12.2d.offset_ring_stores', m)
    chk.count('c12.2d.offsetcontour_calls', n)


def rule_decompose_input(chk, db, cfgname):
    chk.rule('C12.3', 'CrossSection::Decompose hands all of its own contours (GetPaths()->paths_) to '
             'DecomposeByContainment: a pre-filtered or otherwise derived contour set cannot partition the whole')
    n = 0
    for f in db.functions.values():
        if not f.get('blocks') or f['name'] != 'manifold::CrossSection::Decompose':
            continue
        for b in f['blocks']:
            for e in b['ev']:
                if e.get('k') == 'call' and T.short(e.get('fn', '')) == 'DecomposeByContainment':
                    n += 1
                    r = c11.Resolver(db, f, c11.load_table())
                    cls = sorted(set(r.classify(e['args'][0])))
                    ok = cls == [('regular-copy', 'paths_ of a CrossSection')]
                    chk.obligation(ok, {'function': f['name'], 'line': e.get('ln'), 'argument': T.pstr(e['args'][0])[:40],
                                        'resolves to': ['%s: %s' % c for c in cls]})
                    if not ok:
                        chk.violation('C12.3', f, 'Decompose input %s' % T.pstr(e['args'][0])[:30],
                                      'DecomposeByContainment receives %s instead of the section\'s own paths_: '
                                      'contours missing from its input are missing from every component, so the '
                                      'component areas no longer sum to the whole' % ['%s: %s' % c for c in cls],
                                      line=e.get('ln'), cfg=cfgname)
    chk.count('c12.3.decompose_calls', n)


def rule_signed_area_order(chk, db, cfgname):
    chk.rule('C12.4', 'a field that holds a SIGNED area (assigned from SignedArea(): outlines positive, holes negative) '
             'takes part in an ordering comparison only as a sign test against 0 or through fabs/abs: "the smallest '
             'ring that contains this one" is smallest by magnitude, and ordering signed values puts every hole before '
             'every outline')
    fields = set()
    for f in db.functions.values():
        if not f.get('blocks') or not f['file'].startswith('src/'):
            continue
        for b in f['blocks']:
            for e in b['ev']:
                if e.get('k') == 'bin' and e.get('op') == '=' and T.strip(e['l']).get('k') == 'mem':
                    r0 = T.strip_copy(e['r'])
                    if r0.get('k') == 'call' and T.short(r0.get('fn', '')) == 'SignedArea':
                        l0 = T.strip(e['l'])
                        fields.add((l0.get('cls'), l0.get('n')))
    if not fields:
        raise AnalysisBroken('C12.4: no field is assigned from SignedArea() any more')

    def signed_refs(x, inits, depth=0):
        """mem nodes of a signed-area field inside x (through never-reassigned locals) that are not under fabs/abs"""
        out = []
        stack = [x]
        while stack:
            y = stack.pop()
            if not isinstance(y, dict):
                continue
            if y.get('k') == 'call' and T.short(y.get('fn', '')) in ('fabs', 'abs'):
                continue
            if y.get('k') == 'mem' and (y.get('cls'), y.get('n')) in fields:
                out.append(y)
            if y.get('k') == 'var' and y.get('d') in inits and depth < 2:
                out += signed_refs(inits[y['d']], inits, depth + 1)
            stack.extend(T.children(y))
        return out

    def is_zero(x):
        x = T.strip_copy(x)
        return x.get('k') in ('int', 'flt') and x.get('v') in (0, 0.0)
    n = 0
    seen = set()
    for f in db.functions.values():
        if not f.get('blocks') or not f['file'].startswith('src/'):
            continue
        roots = [e for b in f['blocks'] for e in b['ev']] + \
                [b['term']['cond'] for b in f['blocks'] if b.get('term') and isinstance(b['term'].get('cond'), dict)]
        inits, assigned = {}, set()
        for r in roots:
            if r.get('k') == 'decl':
                for v in r['vars']:
                    if isinstance(v.get('init'), dict) and v.get('d'):
                        inits[v['d']] = v['init']
            for y in T.walk(r):
                if isinstance(y, dict) and y.get('k') == 'bin' and y.get('op', '').endswith('=') and \
                        y.get('op') not in ('==', '!=', '<=', '>='):
                    t = T.strip(y['l'])
                    if t.get('k') == 'var' and t.get('d'):
                        assigned.add(t['d'])
        inits = {d: i for d, i in inits.items() if d not in assigned}
        for r in roots:
            for y in T.walk(r):
                if not (isinstance(y, dict) and y.get('k') == 'bin' and y.get('op') in ('<', '>', '<=', '>=')):
                    continue
                sl, sr = signed_refs(y['l'], inits), signed_refs(y['r'], inits)
                if not sl and not sr:
                    continue
                key = (f['key'], y.get('ln'), T.pstr(y))
                if key in seen:
                    continue
                seen.add(key)
                n += 1
                ok = (sl and is_zero(y['r'])) or (sr and is_zero(y['l']))
                chk.obligation(bool(ok), {'function': f['name'][:70], 'line': y.get('ln'), 'comparison': T.pstr(y)[:70]})
                if not ok:
                    chk.violation('C12.4', f, 'signed area ordered: %s' % T.pstr(y)[:60],
                                  'the signed area field is compared by value (%s): holes (negative) sort before every '
                                  'outline, so "smallest containing ring" picks the wrong parent as soon as outlines and '
                                  'holes nest more than one level' % T.pstr(y)[:70], line=y.get('ln'), cfg=cfgname)
    chk.count('c12.4.signed_area_comparisons', n)


def main(chk, tier):
    import db as D
    configs = ['seq'] if tier == 'quick' else ['seq', 'par']
    for cfgname in configs:
        db = D.load(cfgname)
        chk.configs.append(cfgname)
        chk.units = len(db.units)
        chk.functions_analysed += len(db.functions)
        rule_provenance(chk, db, cfgname)
        rule_order(chk, db, cfgname)
        c11.rule_offset(chk, db, cfgname, 'C12.2')
        rule_segments(chk, db, cfgname)
        rule_every_ring(chk, db, cfgname)
        rule_decompose_input(chk, db, cfgname)
        rule_signed_area_order(chk, db, cfgname)
    n = len(configs)
    chk.floor('c12.1.returns', 6 * n)
    chk.floor('c12.1.appends', 7 * n)
    chk.floor('c12.1b.output_pushes', n)
    chk.floor('c12.2.offset_returns', 3 * n)
    chk.floor('c12.2b.offsetcontour_calls', n)
    chk.floor('c12.2c.guards', n)
    chk.floor('c12.2d.offsetcontour_calls', n)
    chk.floor('c12.3.decompose_calls', n)
    chk.floor('c12.4.signed_area_comparisons', 2 * n)
    return chk.finish(
        'Provenance analysis of the four vertex/ring-selecting helpers (what they return is built only from copies '
        'of input elements, SimplifyRing in input order) and a structural check of Offset\'s returns and segment '
        'clamp. Distance-to-region, monotonicity in delta, miter bounds, hull containment/convexity and area '
        'partition quantify over every point of the plane and are not decided.',
        assumptions=['element copies are recognised syntactically (x[i], *it, range-for elements)'])
