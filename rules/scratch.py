"""Persistent scratch buffers (function-local `static` / `thread_local` containers kept for their capacity):
the contents left by the previous call must not be readable by the next one.

Rule: in the function that declares it, every READ of such a container is dominated by a re-initialisation of it:
  * a whole reset  (V.clear(), V.assign(..), V = .., std::iota/fill over V.begin(), or passing V to a callee that
    resets the corresponding non-const reference parameter on every path before reading it), or
  * the header of a loop that only writes elements (V[i] = .. / V[i].clear()) and never reads V.
resize()/reserve() are neither reads nor resets (resize keeps the old elements).
The rule is structural: it does not prove that the element-writing loop covers the range that is read later."""
import cfg as C
import tree as T

WHOLE_RESET_METHODS = {'clear', 'assign'}
NEUTRAL_METHODS = {'resize', 'reserve', 'capacity', 'size', 'empty', 'shrink_to_fit'}
FILL_ALGOS = {'iota', 'fill', 'fill_n', 'sequence'}


def persistent_locals(db):
    vs = db.vars.values() if isinstance(db.vars, dict) else db.vars
    out = []
    for v in vs:
        if v.get('staticLocal') and not v.get('const') and not v.get('constexpr') and v['file'].startswith('src/'):
            t = db.types[v['tu']][v['t']]
            if (t.get('r') or '').startswith(('std::vector', 'manifold::Vec', 'std::unordered_map', 'std::map')):
                out.append(v)
    return out


def mentions_var(n, name, line=None):
    return any(isinstance(y, dict) and y.get('k') == 'var' and y.get('n') == name for y in T.walk(n))


def index_texts(n, name):
    """(set of index texts used as name[idx], all occurrences subscripted?)"""
    idxs = set()
    covered = set()
    for y in T.walk(n):
        if not isinstance(y, dict):
            continue
        base = idx = None
        if y.get('k') == 'sub':
            base, idx = y.get('base'), y.get('idx')
        elif y.get('k') == 'call' and y.get('op') == '[]' and y.get('recv') is not None and y.get('args'):
            base, idx = y['recv'], y['args'][0]
        if base is not None:
            b0 = T.strip_copy(base)
            if b0.get('k') == 'var' and b0.get('n') == name:
                idxs.add(T.pstr(idx))
                covered.add(id(b0))
    allsub = all(id(y) in covered for y in T.walk(n)
                 if isinstance(y, dict) and y.get('k') == 'var' and y.get('n') == name)
    return idxs, allsub


def root_is(n, name):
    r = T.root_of(T.strip_copy(n))
    return r is not None and r.get('k') == 'var' and r.get('n') == name


def callee_resets_param(db, fk, idx, depth=0):
    """the callee re-initialises its idx-th parameter (whole reset, or an element-writing loop) before any read of
    it, on every path"""
    f = db.functions.get(fk)
    if not f or not f.get('blocks') or idx >= len(f['params']) or depth > 2:
        return False
    t = db.T(f, f['params'][idx]['t'])
    c = t.get('c') or t.get('s') or ''
    if not t.get('ref') or c.startswith('const '):
        return False
    return not unguarded_reads(db, f, f['params'][idx]['n'], depth + 1)


def classify(db, f, name, depth=0):
    """[(block, index, kind, line, text)] for top-level events that mention container `name`"""
    out = []
    for b in f['blocks']:
        for e in b['ev']:
            if not mentions_var(e, name):
                continue
            k = e.get('k')
            kind = None
            if k == 'decl':
                # a reference alias or a copy reads it; the declaration of the container itself is neutral
                if any(v['n'] == name for v in e['vars']):
                    kind = 'NEUTRAL'
                else:
                    kind = 'READ'
            elif k == 'call' and e.get('recv') is not None and root_is(e['recv'], name):
                m = T.short(e.get('fn', ''))
                r0 = T.strip_copy(e['recv'])
                whole = r0.get('k') == 'var'
                if whole and m in WHOLE_RESET_METHODS:
                    kind = 'RESET_WHOLE'
                elif whole and m in NEUTRAL_METHODS:
                    kind = 'NEUTRAL'
                elif whole and e.get('op') == '=':
                    kind = 'RESET_WHOLE'
                elif not whole and (e.get('op') == '=' or m in WHOLE_RESET_METHODS) and \
                        not any(mentions_var(a, name) for a in e.get('args', [])):
                    kind = 'RESET_ELEM'
                elif whole and m in ('begin', 'end', 'data', 'cbegin', 'cend', 'operator[]') or e.get('op') == '[]':
                    kind = 'SUB'          # a sub-expression element; judged at its consumer
                else:
                    kind = 'READ'
            elif k == 'bin' and e.get('op') == '=' and root_is(e['l'], name) and not mentions_var(e['r'], name):
                kind = 'RESET_WHOLE' if T.strip_copy(e['l']).get('k') == 'var' else 'RESET_ELEM'
            elif k == 'call':
                m = T.short(e.get('fn', ''))
                args = e.get('args', [])
                if m in FILL_ALGOS and args and mentions_var(args[0], name):
                    kind = 'RESET_WHOLE'
                else:
                    kind = 'READ'
                    for i, a in enumerate(args):
                        a0 = T.strip_copy(a)
                        if a0.get('k') == 'var' and a0['n'] == name and e.get('fk') and \
                                callee_resets_param(db, e['fk'], i, depth):
                            kind = 'RESET_WHOLE'
            elif k in ('sub', 'mem', 'cast', 'un', 'var'):
                kind = 'SUB'
            else:
                kind = 'READ'
            out.append((b['id'], e.get('i', 0), kind, e.get('ln'), T.pstr(e)[:60], index_texts(e, name)))
    # terminator conditions read
    for b in f['blocks']:
        t = b.get('term')
        if t and 'cond' in t and mentions_var(t['cond'], name):
            calls = [y for y in T.walk(t['cond']) if isinstance(y, dict) and y.get('k') == 'call' and
                     y.get('recv') is not None and root_is(y['recv'], name)]
            if calls and all(T.short(y.get('fn', '')) in NEUTRAL_METHODS for y in calls):
                continue
            out.append((b['id'], 1 << 30, 'READ', None, 'condition ' + T.pstr(t['cond'])[:40],
                        index_texts(t['cond'], name)))
    return out


def unguarded_reads(db, f, name, depth=0):
    """READ events of container `name` in f that no re-initialisation dominates"""
    evs = classify(db, f, name, depth)
    g = C.Cfg(f)
    if not g.ok():
        return []
    dom = g.dominators()
    loops = g.loops()
    # a read of V[idx] after a write of V[idx] with the same index text in the same loop iteration is the
    # element just written, not stale data
    def self_read(ev, body):
        idxs, allsub = ev[5]
        if not allsub or not idxs:
            return False
        for w in evs:
            if w[2] == 'RESET_ELEM' and w[0] in body and idxs <= w[5][0] and \
                    ((w[0] == ev[0] and w[1] < ev[1]) or (w[0] != ev[0] and w[0] in dom.get(ev[0], ()))):
                return True
        return False
    fixed = []
    for e in evs:
        if e[2] == 'READ':
            body = None
            for h, blocks in loops.items():
                if e[0] in blocks and (body is None or len(blocks) < len(body)):
                    body = blocks
            if body is not None and self_read(e, body):
                e = (e[0], e[1], 'SELF', e[3], e[4], e[5])
        fixed.append(e)
    evs = fixed
    reads = [e for e in evs if e[2] == 'READ']
    points = [(b, i) for (b, i, k, ln, tx, ix) in evs if k == 'RESET_WHOLE']
    # element-writing loops with no read of the container inside
    for h, body in loops.items():
        inside = [e for e in evs if e[0] in body]
        if any(e[2] == 'RESET_ELEM' for e in inside) and not any(e[2] == 'READ' for e in inside):
            # innermost loop only
            points.append((h, -1))
    bad = []
    for (b, i, k, ln, tx, ix) in reads:
        ok = False
        for (pb, pi) in points:
            if pb == b and pi < i and pi >= 0:
                ok = True
            elif pb != b and pb in dom.get(b, ()):
                ok = True
            elif pb == b and pi == -1:
                ok = False
        if not ok:
            bad.append((ln, tx))
    return bad


def rule(chk, db, cfgname, rid, file_filter=None):
    chk.rule(rid, 'every function-local static / thread_local scratch container is re-initialised (whole reset, a '
             'callee that resets it, or an element-writing loop that never reads it) on every path before its '
             'contents are read: nothing computed by an earlier call on the thread can leak into this one')
    n = 0
    for v in persistent_locals(db):
        if file_filter and v['file'] not in file_filter:
            continue
        # the function that declares it
        owners = [f for f in db.functions.values() if f.get('blocks') and f['file'] == v['file'] and any(
            e.get('k') == 'decl' and any(x['n'] == v['name'].split('::')[-1] and e.get('ln') == v['line']
                                         for x in e['vars']) for b in f['blocks'] for e in b['ev'])]
        for f in owners:
            n += 1
            name = v['name'].split('::')[-1]
            bad = unguarded_reads(db, f, name)
            chk.obligation(not bad, {'scratch': name, 'function': f['name'][:70], 'line': v['line'],
                                     'reads not dominated by a re-initialisation': bad[:3]})
            if bad:
                chk.violation(rid, f, 'stale scratch %s' % name,
                              'the persistent scratch container %s (declared static/thread_local at line %s) is read at '
                              'line %s (%s) on a path where nothing re-initialised it in this call: data left by the '
                              'previous call on this thread is used' % (name, v['line'], bad[0][0], bad[0][1]),
                              line=bad[0][0], cfg=cfgname)
    chk.count(rid.lower() + '.scratch_buffers', n)
