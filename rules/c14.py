"""C14 — spatial indices report exactly the overlapping pairs (structural clauses).

C14.1 the leaf-level overlap / containment predicates of Box and Rect are exactly the documented closed-interval
      tests: their return expressions are interpreted over a finite domain of interval configurations (every Allen
      relation incl. touching and degenerate, per axis) and compared with the reference predicate
C14.2 Collider::Transform is only reached under Collider::IsAxisAligned(same matrix); the other branch rebuilds the
      boxes with UpdateBoxes
C14.3 the arrays handed to the Collider were permuted together with the faces (C07.1b group of SortFaces)
"""
import itertools
import json
import os

import cfg as C
import tree as T
from db import AnalysisBroken, VERIF

AXES = ['x', 'y', 'z']


class Unsupported(Exception):
    pass


def comp_of(node, axis_hint=None):
    """(object, field, axis) of a scalar component expression like min.x / box.max.y / p.x"""
    n = T.strip_copy(node)
    if n.get('k') == 'mem' and n['n'] in AXES:
        base = T.strip_copy(n['base'])
        axis = n['n']
        if base.get('k') == 'mem' and base['n'] in ('min', 'max'):
            owner = T.strip_copy(base['base'])
            obj = 'this' if owner.get('k') == 'this' else owner.get('n')
            return (obj, base['n'], axis)
        if base.get('k') == 'var':
            return (base['n'], 'pt', axis)
    raise Unsupported('component ' + T.pstr(node))


def vec_of(node):
    """(object, field) of a vector expression: min / box.max / p"""
    n = T.strip_copy(node)
    if n.get('k') == 'mem' and n['n'] in ('min', 'max'):
        owner = T.strip_copy(n['base'])
        return ('this' if owner.get('k') == 'this' else owner.get('n'), n['n'])
    if n.get('k') == 'var':
        return (n['n'], 'pt')
    raise Unsupported('vector ' + T.pstr(node))


VOPS = {'gequal': '>=', 'lequal': '<=', 'less': '<', 'greater': '>', 'equal': '=='}


def formula(node, dims):
    """and/or/not tree over atoms ('cmp', op, lhs, rhs)"""
    n = T.strip_copy(node)
    k = n.get('k')
    if k == 'bin' and n['op'] in ('&&', '||'):
        return (n['op'], formula(n['l'], dims), formula(n['r'], dims))
    if k == 'un' and n['op'] == '!':
        return ('!', formula(n['e'], dims))
    if k == 'bin' and n['op'] in ('<', '<=', '>', '>=', '==', '!='):
        return ('cmp', n['op'], comp_of(n['l']), comp_of(n['r']))
    if k == 'call' and T.short(n.get('fn', '')) == 'all' and n.get('args'):
        inner = T.strip_copy(n['args'][0])
        if inner.get('k') == 'call' and T.short(inner.get('fn', '')) in VOPS:
            op = VOPS[T.short(inner['fn'])]
            a, b = vec_of(inner['args'][0]), vec_of(inner['args'][1])
            parts = [('cmp', op, a + (ax,), b + (ax,)) for ax in AXES[:dims]]
            out = parts[0]
            for p in parts[1:]:
                out = ('&&', out, p)
            return out
    raise Unsupported(T.pstr(node)[:80])


def evaluate(fm, env):
    if fm[0] == '&&':
        return evaluate(fm[1], env) and evaluate(fm[2], env)
    if fm[0] == '||':
        return evaluate(fm[1], env) or evaluate(fm[2], env)
    if fm[0] == '!':
        return not evaluate(fm[1], env)
    _, op, l, r = fm
    a, b = env[l], env[r]
    return {'<': a < b, '<=': a <= b, '>': a > b, '>=': a >= b, '==': a == b, '!=': a != b}[op]


def interval_configs():
    """pairs of intervals ([a0,a1],[b0,b1]) realising every Allen relation (incl. touching / equal / point)"""
    vals = range(0, 5)
    out = set()
    for a0, a1, b0, b1 in itertools.product(vals, repeat=4):
        if a0 <= a1 and b0 <= b1:
            # canonical form: order type of the four endpoints
            order = tuple(sorted(set((a0, a1, b0, b1))).index(v) for v in (a0, a1, b0, b1))
            out.add(order)
    return sorted(out)


def point_configs():
    out = set()
    for a0, a1, p in itertools.product(range(0, 4), repeat=3):
        if a0 <= a1:
            out.add(tuple(sorted(set((a0, a1, p))).index(v) for v in (a0, a1, p)))
    return sorted(out)


def rule1(chk, db, cfgname):
    chk.rule('C14.1', 'Box::DoesOverlap(Box), Box::DoesOverlap(vec3) (xy projection), Box::Contains, Rect::DoesOverlap, '
             'Rect::Contains equal the closed-interval reference on every configuration of interval endpoints per '
             'axis (13 Allen relations plus degenerate intervals); a body outside the comparison/&&/||/!/la::all '
             'fragment is analysis-broken, not a verdict')
    specs = [
        ('manifold::Box::DoesOverlap', 'manifold::Box', 3, 'overlap'),
        ('manifold::Box::DoesOverlap', 'vec3', 2, 'point_in_xy'),
        ('manifold::Box::Contains', 'manifold::Box', 3, 'contains_box'),
        ('manifold::Box::Contains', 'vec3', 3, 'contains_pt'),
        ('manifold::Rect::DoesOverlap', 'manifold::Rect', 2, 'overlap'),
        ('manifold::Rect::Contains', 'manifold::Rect', 2, 'contains_box'),
        ('manifold::Rect::Contains', 'vec2', 2, 'contains_pt'),
    ]
    ivs = interval_configs()
    pts = point_configs()
    total = 0
    for name, ptype, dims, kind in specs:
        cands = [f for f in db.fn(name) if f['params'] and
                 (db.T(f, f['params'][0]['t']).get('r') == ptype or
                  ptype in db.T(f, f['params'][0]['t']).get('s', '') or
                  (ptype.startswith('vec') and db.T(f, f['params'][0]['t']).get('r') == 'linalg::vec' and
                   (db.T(f, f['params'][0]['t']).get('targs') or ['', ''])[1] == ptype[-1]))]
        if len(cands) != 1:
            raise AnalysisBroken('C14.1: %s(%s) not found uniquely (%d)' % (name, ptype, len(cands)))
        f = cands[0]
        rets = [ev for b in f['blocks'] for ev in b['ev'] if ev.get('k') == 'return' and 'e' in ev]
        if len(rets) != 1:
            raise AnalysisBroken('C14.1: %s has %d return statements' % (name, len(rets)))
        other = f['params'][0]['n']
        try:
            fm = formula(rets[0]['e'], dims)
        except Unsupported as e:
            raise AnalysisBroken('C14.1: %s: expression outside the supported fragment: %s' % (name, e))
        axes = AXES[:dims]
        nbad = 0
        first_bad = None
        ncase = 0
        space = pts if kind in ('point_in_xy', 'contains_pt') else ivs
        for combo in itertools.product(space, repeat=dims):
            env = {}
            ref = True
            for ax, cfg in zip(axes, combo):
                if kind in ('point_in_xy', 'contains_pt'):
                    a0, a1, p = cfg
                    env[('this', 'min', ax)], env[('this', 'max', ax)], env[(other, 'pt', ax)] = a0, a1, p
                    ref = ref and (a0 <= p <= a1)
                else:
                    a0, a1, b0, b1 = cfg
                    env[('this', 'min', ax)], env[('this', 'max', ax)] = a0, a1
                    env[(other, 'min', ax)], env[(other, 'max', ax)] = b0, b1
                    if kind == 'overlap':
                        ref = ref and (a0 <= b1 and b0 <= a1)
                    else:
                        ref = ref and (a0 <= b0 and b1 <= a1)
            if dims == 3 and kind == 'point_in_xy':
                pass
            # Box::DoesOverlap(vec3) ignores z by specification: give z arbitrary values too
            if name.endswith('Box::DoesOverlap') and kind == 'point_in_xy':
                env[('this', 'min', 'z')], env[('this', 'max', 'z')], env[(other, 'pt', 'z')] = 0, 1, 5
            try:
                got = evaluate(fm, env)
            except KeyError as e:
                raise AnalysisBroken('C14.1: %s refers to %s, which the model does not bind' % (name, e))
            ncase += 1
            if got != ref:
                nbad += 1
                first_bad = first_bad or {'configuration': {'%s.%s.%s' % k: v for k, v in env.items()},
                                          'predicate': got, 'reference': ref}
        total += ncase
        ok = nbad == 0
        chk.obligation(ok, {'predicate': '%s(%s)' % (name, ptype), 'configurations': ncase, 'disagreements': nbad,
                            'first': first_bad})
        if not ok:
            chk.violation('C14.1', f, '%s(%s) != closed-interval test' % (T.short(name), ptype),
                          'the predicate disagrees with the closed-interval reference on %d of %d endpoint '
                          'configurations, e.g. %s' % (nbad, ncase, json.dumps(first_bad)[:300]), cfg=cfgname)
    chk.count('c14.1.configurations', total)
    chk.count('c14.1.predicates', len(specs))


def rule2(chk, db, cfgname):
    chk.rule('C14.2', 'every call of Collider::Transform(m) is control-dependent on Collider::IsAxisAligned(m) being '
             'true (a rotated box no longer bounds its leaf); the other branch calls UpdateBoxes')
    n = 0
    for f in db.functions.values():
        if not f.get('blocks'):
            continue
        g = None
        for b in f['blocks']:
            for ev in b['ev']:
                if ev.get('k') == 'call' and T.basename(ev.get('fn', '')) == 'manifold::Collider::Transform':
                    n += 1
                    g = g or C.Cfg(f)
                    arg = T.pstr(ev['args'][0]) if ev.get('args') else '?'
                    ok = False
                    widened = False
                    for d, k in g.control_deps(b['id']):
                        cond, _ = C.branch_cond(g.blocks[d])
                        if cond is None:
                            continue
                        inner, neg = C.split_negation(cond)
                        if inner.get('k') == 'call' and T.short(inner.get('fn', '')) == 'IsAxisAligned' and \
                                inner.get('args') and T.pstr(inner['args'][0]) == arg and (k == 0) != neg:
                            ok = True
                        elif 'IsAxisAligned' in T.pstr(cond) and '||' in T.pstr(cond) and k == 0:
                            widened = True     # reachable through another disjunct as well
                    ok = ok and not widened
                    chk.obligation(ok, {'function': f['name'], 'line': ev.get('ln'), 'Collider::Transform(%s)' % arg:
                                        'under IsAxisAligned(%s)' % arg if ok else 'UNGUARDED'})
                    if not ok:
                        chk.violation('C14.2', f, 'collider_.Transform(%s) unguarded' % arg,
                                      'the BVH boxes are transformed in place without the IsAxisAligned(%s) test: '
                                      'under a rotation the stored boxes no longer bound their triangles and '
                                      'overlapping pairs are missed' % arg, line=ev.get('ln'), cfg=cfgname)
    if n < 1:
        raise AnalysisBroken('C14.2: no call of Collider::Transform found')
    chk.count('c14.2.transform_calls', n)


def main(chk, tier):
    import db as D
    import c07
    configs = ['seq'] if tier == 'quick' else ['seq', 'par']
    tab = c07.load_table()
    for cfgname in configs:
        db = D.load(cfgname)
        chk.configs.append(cfgname)
        chk.units = len(db.units)
        chk.functions_analysed += len(db.functions)
        rule1(chk, db, cfgname)
        rule2(chk, db, cfgname)
        t2 = {'permutation_sites': [s for s in tab['permutation_sites'] if 'SortFaces' in s['function'] or
                                    'MergeMeshGLP' in s['function']]}
        c07.rule_groups(chk, db, cfgname, t2, 'C14.3')
    n = len(configs)
    chk.floor('c14.1.predicates', 7 * n)
    chk.floor('c14.1.configurations', 1000 * n)
    chk.floor('c14.3.group_members', 4 * n)
    return chk.finish(
        'Finite-domain abstract evaluation of the return expressions of the seven Box/Rect overlap and containment '
        'predicates (interpreted by the checker over every ordering of interval endpoints per axis; no floating-point '
        'value of the program is computed), a control-dependence check that BVH boxes are only transformed in place '
        'for axis-aligned matrices, and the permutation-group rule for the arrays handed to the Collider. Radix-tree '
        'construction and traversal completeness (index arithmetic over run-time Morton codes) are not decided.',
        assumptions=['comparisons of finite doubles are modelled by integer order; NaN endpoints are out of scope '
                     '(C09 rejects non-finite input)'])
