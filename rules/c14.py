"""C14 — spatial indices report exactly the overlapping pairs (structural clauses).

C14.1 the leaf-level overlap / containment predicates of Box and Rect are exactly the documented closed-interval
      tests: their return expressions are interpreted over a finite domain of interval configurations (every Allen
      relation incl. touching and degenerate, per axis) and compared with the reference predicate
C14.2 Collider::Transform is only reached under Collider::IsAxisAligned(same matrix); the other branch rebuilds the
      boxes with UpdateBoxes
C14.3 the arrays handed to the Collider were permuted together with the faces (C07.1b group of SortFaces)
"""
import itertools
import json
import os

import cfg as C
import tree as T
from db import AnalysisBroken, VERIF

AXES = ['x', 'y', 'z']


class Unsupported(Exception):
    pass


def comp_of(node, axis_hint=None):
    """(object, field, axis) of a scalar component expression like min.x / box.max.y / p.x"""
    n = T.strip_copy(node)
    if n.get('k') == 'mem' and n['n'] in AXES:
        base = T.strip_copy(n['base'])
        axis = n['n']
        if base.get('k') == 'mem' and base['n'] in ('min', 'max'):
            owner = T.strip_copy(base['base'])
            obj = 'this' if owner.get('k') == 'this' else owner.get('n')
            return (obj, base['n'], axis)
        if base.get('k') == 'var':
            return (base['n'], 'pt', axis)
    raise Unsupported('component ' + T.pstr(node))


def vec_of(node):
    """(object, field) of a vector expression: min / box.max / p"""
    n = T.strip_copy(node)
    if n.get('k') == 'mem' and n['n'] in ('min', 'max'):
        owner = T.strip_copy(n['base'])
        return ('this' if owner.get('k') == 'this' else owner.get('n'), n['n'])
    if n.get('k') == 'var':
        return (n['n'], 'pt')
    raise Unsupported('vector ' + T.pstr(node))


VOPS = {'gequal': '>=', 'lequal': '<=', 'less': '<', 'greater': '>', 'equal': '=='}


def formula(node, dims):
    """and/or/not tree over atoms ('cmp', op, lhs, rhs)"""
    n = T.strip_copy(node)
    k = n.get('k')
    if k == 'bin' and n['op'] in ('&&', '||'):
        return (n['op'], formula(n['l'], dims), formula(n['r'], dims))
    if k == 'un' and n['op'] == '!':
        return ('!', formula(n['e'], dims))
    if k == 'bin' and n['op'] in ('<', '<=', '>', '>=', '==', '!='):
        return ('cmp', n['op'], comp_of(n['l']), comp_of(n['r']))
    if k == 'call' and T.short(n.get('fn', '')) == 'all' and n.get('args'):
        inner = T.strip_copy(n['args'][0])
        if inner.get('k') == 'call' and T.short(inner.get('fn', '')) in VOPS:
            op = VOPS[T.short(inner['fn'])]
            a, b = vec_of(inner['args'][0]), vec_of(inner['args'][1])
            parts = [('cmp', op, a + (ax,), b + (ax,)) for ax in AXES[:dims]]
            out = parts[0]
            for p in parts[1:]:
                out = ('&&', out, p)
            return out
    raise Unsupported(T.pstr(node)[:80])


def evaluate(fm, env):
    if fm[0] == '&&':
        return evaluate(fm[1], env) and evaluate(fm[2], env)
    if fm[0] == '||':
        return evaluate(fm[1], env) or evaluate(fm[2], env)
    if fm[0] == '!':
        return not evaluate(fm[1], env)
    _, op, l, r = fm
    a, b = env[l], env[r]
    return {'<': a < b, '<=': a <= b, '>': a > b, '>=': a >= b, '==': a == b, '!=': a != b}[op]


def interval_configs():
    """pairs of intervals ([a0,a1],[b0,b1]) realising every Allen relation (incl. touching / equal / point)"""
    vals = range(0, 5)
    out = set()
    for a0, a1, b0, b1 in itertools.product(vals, repeat=4):
        if a0 <= a1 and b0 <= b1:
            # canonical form: order type of the four endpoints
            order = tuple(sorted(set((a0, a1, b0, b1))).index(v) for v in (a0, a1, b0, b1))
            out.add(order)
    return sorted(out)


def point_configs():
    out = set()
    for a0, a1, p in itertools.product(range(0, 4), repeat=3):
        if a0 <= a1:
            out.add(tuple(sorted(set((a0, a1, p))).index(v) for v in (a0, a1, p)))
    return sorted(out)


def rule1(chk, db, cfgname):
    chk.rule('C14.1', 'Box::DoesOverlap(Box), Box::DoesOverlap(vec3) (xy projection), Box::Contains, Rect::DoesOverlap, '
             'Rect::Contains equal the closed-interval reference on every configuration of interval endpoints per '
             'axis (13 Allen relations plus degenerate intervals); a body outside the comparison/&&/||/!/la::all '
             'fragment is analysis-broken, not a verdict')
    specs = [
        ('manifold::Box::DoesOverlap', 'manifold::Box', 3, 'overlap'),
        ('manifold::Box::DoesOverlap', 'vec3', 2, 'point_in_xy'),
        ('manifold::Box::Contains', 'manifold::Box', 3, 'contains_box'),
        ('manifold::Box::Contains', 'vec3', 3, 'contains_pt'),
        ('manifold::Rect::DoesOverlap', 'manifold::Rect', 2, 'overlap'),
        ('manifold::Rect::Contains', 'manifold::Rect', 2, 'contains_box'),
        ('manifold::Rect::Contains', 'vec2', 2, 'contains_pt'),
    ]
    ivs = interval_configs()
    pts = point_configs()
    total = 0
    for name, ptype, dims, kind in specs:
        cands = [f for f in db.fn(name) if f['params'] and
                 (db.T(f, f['params'][0]['t']).get('r') == ptype or
                  ptype in db.T(f, f['params'][0]['t']).get('s', '') or
                  (ptype.startswith('vec') and db.T(f, f['params'][0]['t']).get('r') == 'linalg::vec' and
                   (db.T(f, f['params'][0]['t']).get('targs') or ['', ''])[1] == ptype[-1]))]
        if len(cands) != 1:
            raise AnalysisBroken('C14.1: %s(%s) not found uniquely (%d)' % (name, ptype, len(cands)))
        f = cands[0]
        rets = [ev for b in f['blocks'] for ev in b['ev'] if ev.get('k') == 'return' and 'e' in ev]
        if len(rets) != 1:
            raise AnalysisBroken('C14.1: %s has %d return statements' % (name, len(rets)))
        other = f['params'][0]['n']
        try:
            fm = formula(rets[0]['e'], dims)
        except Unsupported as e:
            raise AnalysisBroken('C14.1: %s: expression outside the supported fragment: %s' % (name, e))
        axes = AXES[:dims]
        nbad = 0
        first_bad = None
        ncase = 0
        space = pts if kind in ('point_in_xy', 'contains_pt') else ivs
        for combo in itertools.product(space, repeat=dims):
            env = {}
            ref = True
            for ax, cfg in zip(axes, combo):
                if kind in ('point_in_xy', 'contains_pt'):
                    a0, a1, p = cfg
                    env[('this', 'min', ax)], env[('this', 'max', ax)], env[(other, 'pt', ax)] = a0, a1, p
                    ref = ref and (a0 <= p <= a1)
                else:
                    a0, a1, b0, b1 = cfg
                    env[('this', 'min', ax)], env[('this', 'max', ax)] = a0, a1
                    env[(other, 'min', ax)], env[(other, 'max', ax)] = b0, b1
                    if kind == 'overlap':
                        ref = ref and (a0 <= b1 and b0 <= a1)
                    else:
                        ref = ref and (a0 <= b0 and b1 <= a1)
            if dims == 3 and kind == 'point_in_xy':
                pass
            # Box::DoesOverlap(vec3) ignores z by specification: give z arbitrary values too
            if name.endswith('Box::DoesOverlap') and kind == 'point_in_xy':
                env[('this', 'min', 'z')], env[('this', 'max', 'z')], env[(other, 'pt', 'z')] = 0, 1, 5
            try:
                got = evaluate(fm, env)
            except KeyError as e:
                raise AnalysisBroken('C14.1: %s refers to %s, which the model does not bind' % (name, e))
            ncase += 1
            if got != ref:
                nbad += 1
                first_bad = first_bad or {'configuration': {'%s.%s.%s' % k: v for k, v in env.items()},
                                          'predicate': got, 'reference': ref}
        total += ncase
        ok = nbad == 0
        chk.obligation(ok, {'predicate': '%s(%s)' % (name, ptype), 'configurations': ncase, 'disagreements': nbad,
                            'first': first_bad})
        if not ok:
            chk.violation('C14.1', f, '%s(%s) != closed-interval test' % (T.short(name), ptype),
                          'the predicate disagrees with the closed-interval reference on %d of %d endpoint '
                          'configurations, e.g. %s' % (nbad, ncase, json.dumps(first_bad)[:300]), cfg=cfgname)
    chk.count('c14.1.configurations', total)
    chk.count('c14.1.predicates', len(specs))


def rule2(chk, db, cfgname):
    chk.rule('C14.2', 'every call of Collider::Transform(m) is control-dependent on Collider::IsAxisAligned(m) being '
             'true (a rotated box no longer bounds its leaf); the other branch calls UpdateBoxes')
    n = 0
    for f in db.functions.values():
        if not f.get('blocks'):
            continue
        g = None
        for b in f['blocks']:
            for ev in b['ev']:
                if ev.get('k') == 'call' and T.basename(ev.get('fn', '')) == 'manifold::Collider::Transform':
                    n += 1
                    g = g or C.Cfg(f)
                    arg = T.pstr(ev['args'][0]) if ev.get('args') else '?'
                    ok = False
                    widened = False
                    for d, k in g.control_deps(b['id']):
                        cond, _ = C.branch_cond(g.blocks[d])
                        if cond is None:
                            continue
                        inner, neg = C.split_negation(cond)
                        if inner.get('k') == 'call' and T.short(inner.get('fn', '')) == 'IsAxisAligned' and \
                                inner.get('args') and T.pstr(inner['args'][0]) == arg and (k == 0) != neg:
                            ok = True
                        elif 'IsAxisAligned' in T.pstr(cond) and '||' in T.pstr(cond) and k == 0:
                            widened = True     # reachable through another disjunct as well
                    ok = ok and not widened
                    chk.obligation(ok, {'function': f['name'], 'line': ev.get('ln'), 'Collider::Transform(%s)' % arg:
                                        'under IsAxisAligned(%s)' % arg if ok else 'UNGUARDED'})
                    if not ok:
                        chk.violation('C14.2', f, 'collider_.Transform(%s) unguarded' % arg,
                                      'the BVH boxes are transformed in place without the IsAxisAligned(%s) test: '
                                      'under a rotation the stored boxes no longer bound their triangles and '
                                      'overlapping pairs are missed' % arg, line=ev.get('ln'), cfg=cfgname)
    if n < 1:
        raise AnalysisBroken('C14.2: no call of Collider::Transform found')
    chk.count('c14.2.transform_calls', n)


def rule_refit(chk, db, cfgname):
    chk.rule('C14.4', 'bottom-up BVH refit (BuildInternalBoxes): a thread leaves the climb towards the root only when it '
             'is the first to arrive at a node (the arrival-counter test); the second arrival always recomputes the '
             'node box from both children and continues, so after UpdateBoxes every ancestor bounds its subtree')
    fs = [f for f in db.functions.values() if f.get('blocks') and 'BuildInternalBoxes' in f['name'] and
          f.get('op') == '()']
    if not fs:
        raise AnalysisBroken('C14.4: BuildInternalBoxes::operator() not found')
    for f in fs[:1]:
        g = C.Cfg(f)
        loop = g.in_loop()
        if not loop:
            raise AnalysisBroken('C14.4: BuildInternalBoxes has no climb loop')
        n = 0
        for b in f['blocks']:
            if b['id'] in loop or not any(p in loop for p in g.pred.get(b['id'], [])):
                continue          # exits taken from inside the climb loop
            for e in b['ev']:
                if e.get('k') != 'return':
                    continue
                n += 1
                deps, work, seen = [], [b['id']], set()
                while work:
                    y = work.pop()
                    for d, k in g.control_deps(y):
                        if (d, k) not in seen and d in loop:
                            seen.add((d, k))
                            deps.append(d)
                            work.append(d)
                conds = [C.branch_cond(g.blocks[d])[0] for d in deps]
                bad = [T.pstr(c)[:60] for c in conds if c is not None and not any(
                    isinstance(y, dict) and y.get('k') == 'call' and T.short(y.get('fn', '')) in ('AtomicAdd', 'fetch_add')
                    for y in T.walk(c)) and 'kRoot' not in T.pstr(c)]
                ok = not bad and bool(conds)
                chk.obligation(ok, {'function': f['name'][:70], 'line': e.get('ln'),
                                    'early exit controlled by': [T.pstr(c)[:50] for c in conds if c is not None]})
                if not ok:
                    chk.violation('C14.4', f, 'refit climb abandoned under %s' % (bad[:1] or ['?'])[0],
                                  'a thread stops climbing the BVH for a reason other than being the first arrival '
                                  '(%s): the sibling already left, so the ancestors of this node keep their old '
                                  'boxes and overlapping pairs are missed after UpdateBoxes' % '; '.join(bad),
                                  line=e.get('ln'), cfg=cfgname)
        # the node box is assigned from both children in the loop
        assigns = 0
        for b in f['blocks']:
            if b['id'] not in loop:
                continue
            for e in b['ev']:
                if e.get('k') == 'call' and e.get('op') == '=' and e.get('recv') is not None and \
                        'nodeBBox_' in T.pstr(e['recv']):
                    txt = T.pstr(e)
                    a0 = T.strip_copy(e['args'][0]) if e.get('args') else {}
                    if a0.get('k') == 'var':
                        for bb in f['blocks']:
                            for ee in bb['ev']:
                                if ee.get('k') == 'decl':
                                    for v in ee['vars']:
                                        if v['n'] == a0['n'] and v.get('init') is not None:
                                            txt += T.pstr(v['init'])
                    if 'Union' in txt:
                        assigns += 1
        chk.obligation(assigns >= 1, {'function': f['name'][:70], 'node box recomputed from children in the loop': assigns})
        if assigns < 1:
            chk.violation('C14.4', f, 'node box not recomputed', 'the climb loop no longer assigns the union of the '
                          'children boxes to the node', cfg=cfgname)
        chk.count('c14.4.early_exits', n)


def rule_tree2d(chk, db, cfgname):
    chk.rule('C14.5', 'QueryTwoDTree prunes with closed comparisons only: a subtree is skipped through Rect::DoesOverlap '
             '(closed, C14.1) or a non-strict comparison of the query rectangle with the split coordinate - points '
             'equal to the median coordinate lie on both sides of a split, so a strict test loses them')
    fs = [f for f in db.functions.values() if f.get('blocks') and T.short(f['name']) == 'QueryTwoDTree']
    if not fs:
        raise AnalysisBroken('C14.5: QueryTwoDTree not instantiated')
    n = 0
    for f in fs:
        rect = [p['n'] for p in f['params'] if (db.T(f, p['t']).get('r') or '').endswith('Rect')]
        pts = [p['n'] for p in f['params'] if 'VecView' in (db.T(f, p['t']).get('c') or '')]
        if not rect or not pts:
            raise AnalysisBroken('C14.5: QueryTwoDTree parameters changed')
        # dependency of locals on the query rectangle / the point set
        dep = {rect[0]: {'R'}, pts[0]: {'P'}}
        changed = True
        while changed:
            changed = False
            for b in f['blocks']:
                for e in b['ev']:
                    pairs = []
                    if e.get('k') == 'decl':
                        pairs = [(v['n'], v.get('init')) for v in e['vars'] if v.get('init') is not None]
                    elif e.get('k') == 'bin' and e.get('op') == '=' and T.root_of(T.strip(e['l'])) is not None:
                        pairs = [(T.root_of(T.strip(e['l'])).get('n'), e['r'])]
                    elif e.get('k') == 'call' and e.get('op') == '=' and e.get('recv') is not None and \
                            T.root_of(T.strip(e['recv'])) is not None and e.get('args'):
                        pairs = [(T.root_of(T.strip(e['recv'])).get('n'), e['args'][0])]
                    for name, init in pairs:
                        if not name:
                            continue
                        d = set()
                        for y in T.walk(init):
                            if isinstance(y, dict) and y.get('k') == 'var':
                                d |= dep.get(y['n'], set())
                        if not d <= dep.get(name, set()):
                            dep[name] = dep.get(name, set()) | d
                            changed = True

        def deps_of(n):
            d = set()
            for y in T.walk(n):
                if isinstance(y, dict) and y.get('k') == 'var':
                    d |= dep.get(y['n'], set())
            return d
        seen = set()
        g = C.Cfg(f)
        for b in f['blocks']:
            nodes = list(b['ev'])
            if b.get('term') and 'cond' in b['term']:
                nodes.append(b['term']['cond'])
            for e in nodes:
                for x in T.walk(e):
                    if not (isinstance(x, dict) and x.get('k') == 'bin' and x.get('op') in ('<', '>', '<=', '>=')):
                        continue
                    key = (x.get('ln'), T.pstr(x))
                    if key in seen:
                        continue
                    dl, dr = deps_of(x['l']), deps_of(x['r'])
                    if not (('R' in dl and 'P' in dr) or ('P' in dl and 'R' in dr)):
                        continue
                    seen.add(key)
                    n += 1
                    ok = x['op'] in ('<=', '>=')
                    if not ok:
                        # a strict test is right when it is the SKIP condition (its true edge visits nothing) and wrong
                        # when it is the ENTER condition: decide by what the true edge reaches before the next test
                        cnd, _ = C.branch_cond(b)
                        if cnd is not None and len(b['succ']) == 2:
                            inner, neg = C.split_negation(cnd)
                            # x is the condition itself or a conjunct of it (a && b && x): then "x true" holds on the
                            # condition's true edge
                            def conjuncts(nd):
                                nd = T.strip_copy(nd)
                                if nd.get('k') == 'bin' and nd.get('op') == '&&':
                                    return conjuncts(nd['l']) + conjuncts(nd['r'])
                                return [nd]
                            if not neg and any(T.pstr(cj) == T.pstr(x) for cj in conjuncts(inner)):
                                tsucc = b['succ'][0]
                                blk = g.blocks.get(tsucc, {'ev': []})
                                visits = any(isinstance(y, dict) and y.get('k') == 'var' and
                                             'P' in dep.get(y.get('n'), set()) for ev2 in blk['ev'] for y in T.walk(ev2))
                                if not visits:
                                    ok = True
                    chk.obligation(ok, {'function': f['key'].split(' :: ')[0][:60], 'line': x.get('ln'),
                                        'comparison': T.pstr(x)[:50], 'closed': ok})
                    if not ok:
                        chk.violation('C14.5', f, 'strict pruning test %s' % T.pstr(x)[:40],
                                      'the 2D tree query compares the query rectangle with a split coordinate using '
                                      'a strict inequality: a point whose coordinate equals the median and that sits '
                                      'on the other side of the split is never visited', line=x.get('ln'), cfg=cfgname)
        calls = sum(1 for b in f['blocks'] for e in b['ev'] if e.get('k') == 'call' and
                    T.short(e.get('fn', '')) in ('DoesOverlap', 'Contains') and 'Rect' in e.get('fn', ''))
        chk.count('c14.5.closed_predicate_calls', calls)
    chk.count('c14.5.direct_comparisons', n)
    chk.count('c14.5.instantiations', len(fs))


def main(chk, tier):
    import db as D
    import c07
    configs = ['seq'] if tier == 'quick' else ['seq', 'par']
    tab = c07.load_table()
    for cfgname in configs:
        db = D.load(cfgname)
        chk.configs.append(cfgname)
        chk.units = len(db.units)
        chk.functions_analysed += len(db.functions)
        rule1(chk, db, cfgname)
        rule2(chk, db, cfgname)
        rule_refit(chk, db, cfgname)
        rule_tree2d(chk, db, cfgname)
        import scratch
        scratch.rule(chk, db, cfgname, 'C14.6')
        t2 = {'permutation_sites': [s for s in tab['permutation_sites'] if 'SortFaces' in s['function'] or
                                    'MergeMeshGLP' in s['function']]}
        c07.rule_groups(chk, db, cfgname, t2, 'C14.3')
    n = len(configs)
    chk.floor('c14.1.predicates', 7 * n)
    chk.floor('c14.1.configurations', 1000 * n)
    chk.floor('c14.3.group_members', 4 * n)
    chk.floor('c14.4.early_exits', n)
    chk.floor('c14.5.instantiations', n)
    chk.floor('c14.6.scratch_buffers', 5 * n)
    return chk.finish(
        'Finite-domain abstract evaluation of the return expressions of the seven Box/Rect overlap and containment '
        'predicates (interpreted by the checker over every ordering of interval endpoints per axis; no floating-point '
        'value of the program is computed), a control-dependence check that BVH boxes are only transformed in place '
        'for axis-aligned matrices, and the permutation-group rule for the arrays handed to the Collider. Radix-tree '
        'construction and traversal completeness (index arithmetic over run-time Morton codes) are not decided.',
        assumptions=['comparisons of finite doubles are modelled by integer order; NaN endpoints are out of scope '
                     '(C09 rejects non-finite input)'])
