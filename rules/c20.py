"""C20 — the C binding is a faithful, memory-safe image of the C++ API.

R1 coverage      every function declared in manifoldc.h has exactly one definition, and vice versa
R2 named callee  each wrapper reaches the C++ member its name says (name match, operator/alias table,
                 field accessors, 32/64 and _seq siblings agree)
R3 arguments     wrapper parameters flow to the callee parameter of the same name; scalar triples fill
                 vec components in order; no parameter is unused
R4 enum tables   to_c/from_c switches are total, name-preserving and mutually inverse
R5 memory        alloc/size/destruct/delete agree on one C++ type per opaque type; every `void* mem`
                 is the placement argument of exactly one new of the type the return type denotes
R6 callbacks     a wrapper that takes a function pointer and a user context binds that very context
"""
import json
import os
import re

import cfg as C
import tree as T
from db import AnalysisBroken, VERIF

API_CLASSES = ('manifold::Manifold', 'manifold::CrossSection', 'manifold::ExecutionContext', 'manifold::MeshGLP',
               'manifold::Box', 'manifold::Rect', 'manifold::Quality')
PREFIXES = ['cross_section_vec_', 'cross_section_', 'manifold_vec_', 'meshgl64_', 'meshgl_', 'box_', 'rect_',
            'execution_context_', 'simple_polygon_', 'polygons_', 'triangulation_', 'ray_hit_vec_']
PREFIX_CLASS = {'cross_section_': 'manifold::CrossSection', 'meshgl64_': 'manifold::MeshGLP',
                'meshgl_': 'manifold::MeshGLP', 'box_': 'manifold::Box', 'rect_': 'manifold::Rect',
                'execution_context_': 'manifold::ExecutionContext'}


def load_table():
    return json.load(open(os.path.join(VERIF, 'rules', 'tables', 'c20.json')))


def norm(s):
    return s.replace('_', '').lower()


def ctype(db, fn, t):
    """canonical identity of the (pointee of the) type of a node / type index"""
    if isinstance(t, int):
        t = db.T(fn, t)
    elif 'k' in t and 't' in t and 'cu' not in t:
        t = db.T(fn, t)
    return t.get('cu') or t.get('s', '?')


def split_name(name):
    rest = name[len('manifold_'):] if name.startswith('manifold_') else name
    for p in PREFIXES:
        if rest.startswith(p):
            return p, rest[len(p):]
    return None, rest


def api_calls(db, f):
    """calls/constructions of the manifold:: API inside a wrapper (lambdas included)"""
    out = []
    fam = [f] + [g for k, g in db.functions.items() if k.startswith(f['key'] + '::<lambda@')]
    for ff in fam:
        for b in ff['blocks']:
            for ev in b['ev']:
                if ev.get('k') == 'call':
                    bn = T.basename(ev.get('fn', ''))
                    if bn.startswith('manifold::') and '(anonymous' not in bn:
                        out.append((ff, ev, bn))
                elif ev.get('k') == 'ctor':
                    bn = T.basename(ev.get('cls', ''))
                    if bn in API_CLASSES and not (ev.get('copy') or ev.get('move')):
                        out.append((ff, ev, bn + '::' + T.short(bn)))
    return out


def wrappers(db):
    return {f['name']: f for f in db.functions.values()
            if f.get('externC') and f['file'].startswith('bindings/c/') and f.get('blocks') is not None}


# ---------------------------------------------------------------------------------------------------
def rule1(chk, db, cfgname):
    chk.rule('C20.R1', 'every function declared in manifoldc.h is defined exactly once in bindings/c/*.cpp with the '
             'same parameter types, and every extern "C" definition is declared')
    decls = {k: v for k, v in db.decls.items() if v['file'].endswith('manifoldc.h')}
    defs = wrappers(db)
    if len(decls) < 250:
        raise AnalysisBroken('C20.R1: only %d declarations found in manifoldc.h' % len(decls))
    for n, d in sorted(decls.items()):
        f = defs.get(n)
        ok = f is not None
        why = 'defined' if ok else 'NOT DEFINED'
        if ok:
            dt = [db.types[d['tu']][p['t']]['c'] for p in d['params']]
            ft = [db.T(f, p['t'])['c'] for p in f['params']]
            if dt != ft:
                ok = False
                why = 'parameter types differ: %s vs %s' % (dt, ft)
        chk.obligation(ok, {'declared': n, 'status': why})
        if not ok:
            chk.violation('C20.R1', n, 'declaration without matching definition', why, file=d['file'],
                          line=d['line'], cfg=cfgname)
    for n, f in sorted(defs.items()):
        if n not in decls:
            chk.obligation(False, {'defined but not declared': n})
            chk.violation('C20.R1', f, 'definition without declaration', 'extern "C" function is not in manifoldc.h',
                          cfg=cfgname)
    chk.count('c20.r1.declarations', len(decls))
    chk.count('c20.r1.definitions', len(defs))


# ---------------------------------------------------------------------------------------------------
def reached(db, f):
    """short names (and classes) of the API members a wrapper reaches, following local helpers once"""
    out = []
    for ff, ev, bn in api_calls(db, f):
        out.append((T.short(bn) if ev.get('k') == 'call' else 'ctor:' + T.short(bn),
                    T.basename(ev.get('mcls') or ev.get('cls') or '')))
    # one level through file-local helpers (level_set(...)) and through a sibling extern "C" wrapper the wrapper
    # forwards to (manifold_get_meshgl -> manifold_get_meshgl_w_normals)
    for b in f['blocks']:
        for ev in b['ev']:
            if ev.get('k') == 'call' and ev.get('fk') in db.functions:
                callee = db.functions[ev['fk']]
                if callee['file'].startswith('bindings/c/') and callee is not f and \
                        T.short(callee['name']) not in ('to_c', 'from_c'):
                    for ff, ev2, bn in api_calls(db, callee):
                        out.append((T.short(bn) if ev2.get('k') == 'call' else 'ctor:' + T.short(bn),
                                    T.basename(ev2.get('mcls') or ev2.get('cls') or '')))
    return out


def field_reads(db, f):
    out = []
    for b in f['blocks']:
        for ev in b['ev']:
            if ev.get('k') == 'mem' and T.basename(ev.get('cls', '')) in API_CLASSES + ('manifold::RayHit',):
                out.append(ev['n'])
    return out


def rule2(chk, db, cfgname, tab):
    chk.rule('C20.R2', 'the wrapper manifold_[class_]<x> reaches the member of that class whose name is <x> '
             '(snake/camel-insensitive), or the member(s) the alias table names; MeshGL accessors read the field '
             'they are named after; 32/64-bit and _seq siblings reach the same members')
    defs = wrappers(db)
    alias = tab['callee_alias']
    structural = set(tab['structural_helpers'])
    fam_mem = re.compile(r'^manifold_(alloc|delete|destruct)_|_size$')
    n = 0
    sig = {}
    for name, f in sorted(defs.items()):
        if fam_mem.search(name) and name not in alias:
            continue      # memory family: rule R5
        pref, rest = split_name(name)
        got = reached(db, f)
        names = {norm(g[0].replace('ctor:', '')) for g in got}
        opnames = {g[0] for g in got}
        fields = field_reads(db, f)
        sig[name] = (sorted(set(g[0] for g in got)), sorted(set(fields)))
        want = None
        ok = False
        if name in alias:
            want = alias[name]
            ok = all((w in opnames) or (w.startswith('field:') and w[6:] in fields) for w in want)
        elif name in structural:
            continue
        else:
            r = norm(rest)
            cands = {r, 'get' + r, 'is' + r, 'num' + r, 'calculate' + r}
            ok = bool(cands & names)
            # overload suffixes: contains_box -> Contains, hull_pts -> Hull, level_set_seq -> LevelSet
            if not ok:
                ok = any(len(nm) >= 4 and r.startswith(nm) for nm in names)
            if not ok and rest in tab['operator_alias']:
                ok = tab['operator_alias'][rest] in opnames
            want = [rest]
            if not ok and pref in ('meshgl_', 'meshgl64_'):
                base = r[:-6] if r.endswith('length') else r
                ok = any(norm(fl) == base for fl in fields)
                want = ['field:' + rest]
            if not ok and pref in ('box_', 'rect_'):
                ok = any(norm(fl) == r for fl in fields)
            if ok and pref in PREFIX_CLASS:
                cls = PREFIX_CLASS[pref]
                if got and not any(g[1] == cls or g[1] == '' for g in got) and not fields:
                    ok = False
        n += 1
        chk.obligation(ok, {'wrapper': name, 'expected': want, 'reaches': sig[name][0][:6], 'fields': sig[name][1][:4]})
        if not ok:
            chk.violation('C20.R2', f, 'callee of %s' % name,
                          'wrapper is named for %s but reaches %s (fields read: %s)' %
                          (want, sig[name][0], sig[name][1]), cfg=cfgname)
    chk.count('c20.r2.wrappers', n)
    # sibling agreement
    ns = 0
    for name in sorted(sig):
        sib = None
        if '_meshgl64' in name:
            sib = name.replace('_meshgl64', '_meshgl')
        elif name.endswith('64'):
            sib = name[:-2]
        elif name.endswith('_seq'):
            sib = name[:-4]
        if sib and sib in sig:
            ns += 1
            strip64 = lambda sg: ([x.replace('64', '') for x in sg[0]], sg[1])
            ok = strip64(sig[name]) == strip64(sig[sib])
            chk.obligation(ok, {'siblings': [name, sib], 'agree': ok})
            if not ok:
                chk.violation('C20.R2', defs[name], 'sibling %s' % sib,
                              'sibling wrappers reach different members: %s vs %s' % (sig[name], sig[sib]),
                              cfg=cfgname)
    chk.count('c20.r2.sibling_pairs', ns)


# ---------------------------------------------------------------------------------------------------
def param_of(arg, pnames):
    """the wrapper parameter an argument expression is (a conversion of), or None"""
    a = T.strip_copy(arg)
    hops = 0
    while hops < 6:
        hops += 1
        if a.get('k') == 'var' and a.get('s') == 'p' and a['n'] in pnames:
            return a['n']
        if a.get('k') == 'call' and T.short(a.get('fn', '')) in ('from_c', 'to_c', 'move') and a.get('args'):
            a = T.strip_copy(a['args'][0])
            continue
        if a.get('k') == 'un' and a.get('op') in ('*', '&'):
            a = T.strip_copy(a['e'])
            continue
        if a.get('k') == 'ctor' and len(a.get('args', [])) == 1:
            a = T.strip_copy(a['args'][0])
            continue
        return None
    return None


def rule3(chk, db, cfgname, tab):
    chk.rule('C20.R3', 'each wrapper parameter reaches the callee parameter with the same (normalised) name; two '
             'same-typed parameters are never crossed; x/y/z scalars fill one vec constructor in order; every '
             'parameter is used')
    defs = wrappers(db)
    ok_unused = {(u['function'], u['param']) for u in tab['unused_params_ok']}
    cross_ok = {(u['function'], u['param'], u['callee_param']) for u in tab['cross_named_ok']}
    nargs = 0
    nvec = 0
    for name, f in sorted(defs.items()):
        pn = [p['n'] for p in f['params']]
        ptype = {p['n']: db.T(f, p['t'])['s'] for p in f['params']}
        used = set()
        fam = [f] + [g for k, g in db.functions.items() if k.startswith(f['key'] + '::<lambda@')]
        for ff in fam:
            for b in ff['blocks']:
                for ev in b['ev']:
                    for x in T.walk(ev):
                        if x.get('k') == 'var' and x['n'] in pn:
                            used.add(x['n'])
                t = b.get('term')
                if t and 'cond' in t:
                    for x in T.walk(t['cond']):
                        if x.get('k') == 'var' and x['n'] in pn:
                            used.add(x['n'])
        for p in pn:
            ok = p in used or (name, p) in ok_unused or p == ''
            chk.obligation(ok, {'wrapper': name, 'parameter': p, 'used': ok})
            if not ok:
                chk.violation('C20.R3', f, 'parameter %s unused' % p, 'wrapper ignores its parameter %s' % p,
                              cfg=cfgname)
        for ff, ev, bn in api_calls(db, f):
            cpn = ev.get('pn', [])
            args = ev.get('args', [])
            bound = []
            for i, a in enumerate(args):
                wp = param_of(a, pn)
                if wp is not None and i < len(cpn):
                    bound.append((i, wp, cpn[i]))
            # receiver / argument order: the object the member is called on is the earlier parameter
            if ev.get('recv') is not None:
                rp = param_of(ev['recv'], pn)
                if rp is not None:
                    for i, wp, cp in bound:
                        if ptype[wp] == ptype[rp] and pn.index(wp) < pn.index(rp):
                            okr = (name, wp, 'this') in cross_ok
                            chk.obligation(okr, {'wrapper': name, 'receiver': rp, 'argument': wp,
                                                 'callee': bn, 'order': 'argument precedes receiver'})
                            if not okr:
                                chk.violation('C20.R3', f, 'receiver %s / argument %s of %s' % (rp, wp, T.short(bn)),
                                              '%s is called on parameter %s with the earlier parameter %s as its '
                                              'argument: operands crossed' % (T.short(bn), rp, wp),
                                              line=ev.get('ln'), cfg=cfgname)
                        else:
                            chk.obligation(True, {'wrapper': name, 'receiver': rp, 'argument': wp, 'callee': bn})
            for i, wp, cp in bound:
                nargs += 1
                if norm(wp) == norm(cp) or not cp:
                    chk.obligation(True, {'wrapper': name, 'arg': wp, 'callee param': cp, 'callee': bn})
                    continue
                # a different same-typed wrapper parameter carries the callee parameter's name -> crossed
                rivals = [o for o in pn if o != wp and ptype[o] == ptype[wp] and
                          (norm(o) == norm(cp) or norm(o).endswith(norm(cp)) or norm(cp).endswith(norm(o)))]
                ok = not rivals or (name, wp, cp) in cross_ok
                chk.obligation(ok, {'wrapper': name, 'arg': wp, 'callee param': cp, 'callee': bn,
                                    'rival parameter': rivals})
                if not ok:
                    chk.violation('C20.R3', f, '%s -> %s of %s' % (wp, cp, T.short(bn)),
                                  'parameter %s is passed where %s expects `%s`, while parameter %s of the same '
                                  'type carries that name: arguments crossed' % (wp, T.short(bn), cp, rivals),
                                  line=ev.get('ln'), cfg=cfgname)
        # scalar triples into vec constructors
        for ff in fam:
            for b in ff['blocks']:
                for ev in b['ev']:
                    if ev.get('k') in ('ctor', 'ilist') and len(ev.get('args', [])) in (2, 3, 4):
                        t = db.T(ff, ev)
                        if t.get('r') != 'linalg::vec' and ev.get('k') == 'ctor':
                            continue
                        if ev.get('k') == 'ilist' and t.get('r') not in ('linalg::vec', 'ManifoldVec3',
                                                                           'ManifoldVec2', 'ManifoldVec4'):
                            continue
                        ps = [param_of(a, pn) for a in ev['args']]
                        if any(p is None for p in ps):
                            continue
                        order = ''.join(axis_of(p) for p in ps)
                        if '?' in order:
                            continue
                        nvec += 1
                        ok = order in ('xy', 'xyz', 'xyzw')
                        chk.obligation(ok, {'wrapper': name, 'vec components from': ps, 'axes': order})
                        if not ok:
                            chk.violation('C20.R3', f, 'vec(%s)' % ','.join(ps),
                                          'scalar parameters fill the vector components in the order %s' % order,
                                          line=ev.get('ln'), cfg=cfgname)
    chk.count('c20.r3.bound_arguments', nargs)
    chk.count('c20.r3.vec_constructions', nvec)


def axis_of(p):
    n = p.lower()
    if n in ('x', 'y', 'z', 'w'):
        return n
    m = re.search(r'(?:^|_)([xyzw])$', n) or re.match(r'^[a-z]?([xyzw])$', n) or re.match(r'^([xyzw])\d$', n)
    return m.group(1) if m else '?'


# ---------------------------------------------------------------------------------------------------
def enum_norm(n, strip):
    s = n.split('::')[-1]
    for p in strip:
        if s.startswith(p):
            s = s[len(p):]
    return norm(s)


def rule4(chk, db, cfgname, tab):
    chk.rule('C20.R4', 'every to_c/from_c switch over an enum handles each enumerator of its source type, maps it to '
             'the enumerator with the same normalised name, and the two directions are inverse')
    strip = tab['enum_prefixes']
    same = {tuple(x) for x in tab['enum_name_alias']}
    maps = {}
    for f in db.functions.values():
        if not f['file'].startswith('bindings/c/') or T.short(f['name']) not in ('to_c', 'from_c'):
            continue
        if len(f['params']) != 1 or db.T(f, f['params'][0]['t']).get('k') != 'e':
            continue
        src = db.T(f, f['params'][0]['t'])['r']
        dst = db.T(f, f['ret']).get('r')
        g = C.Cfg(f)
        # initial value of the result variable
        init = {}
        for _, ev in g.events():
            if ev.get('k') == 'decl':
                for v in ev['vars']:
                    if v.get('init') is not None and T.strip(v['init']).get('k') == 'enum':
                        init[v['n']] = T.strip(v['init'])['n']
        mapping = {}
        for b in g.blocks.values():
            lab = b.get('label')
            if not lab or lab.get('k') != 'case':
                continue
            e = T.strip(lab['e'])
            if e.get('k') != 'enum':
                continue
            # walk forward along the single path to the exit
            val = dict(init)
            ret = None
            cur = b['id']
            seen = set()
            while cur is not None and cur not in seen:
                seen.add(cur)
                for ev in g.blocks[cur]['ev']:
                    if ev.get('k') == 'bin' and ev.get('op') == '=' and T.strip(ev['r']).get('k') == 'enum':
                        l = T.strip(ev['l'])
                        if l.get('k') == 'var':
                            val[l['n']] = T.strip(ev['r'])['n']
                    if ev.get('k') == 'return' and 'e' in ev:
                        r = T.strip_copy(ev['e'])
                        if r.get('k') == 'enum':
                            ret = r['n']
                        elif r.get('k') == 'var':
                            ret = val.get(r['n'])
                ss = g.real_succ(cur)
                cur = ss[0] if len(ss) == 1 else None
            mapping[e['n']] = ret
        if not mapping:
            continue
        maps[(T.short(f['name']), src, dst)] = mapping
        en = db.enums.get(src)
        if not en:
            raise AnalysisBroken('C20.R4: enum %s not found' % src)
        for c in en['enumerators']:
            q = src.rsplit('::', 1)[0] + '::' + c['n'] if '::' in src and not src.startswith('Manifold') else c['n']
            full = [k for k in mapping if k.split('::')[-1] == c['n']]
            ok = bool(full)
            tgt = mapping.get(full[0]) if full else None
            if ok:
                a, b2 = enum_norm(c['n'], strip), enum_norm(tgt or '', strip)
                ok = tgt is not None and (a == b2 or (a, b2) in same or (b2, a) in same)
            chk.count('c20.r4.enumerators')
            chk.obligation(ok, {'function': f['name'], 'from': src + '::' + c['n'], 'to': tgt})
            if not ok:
                chk.violation('C20.R4', f, '%s::%s -> %s' % (src, c['n'], tgt),
                              'enumerator %s of %s is %s' % (c['n'], src, 'mapped to ' + tgt if tgt else
                                                             'not handled by the switch'),
                              cfg=cfgname)
    if len(maps) < 3:
        raise AnalysisBroken('C20.R4: enum conversion switches not found (%d)' % len(maps))
    # inverse pairs
    for (d1, s1, t1), m1 in maps.items():
        for (d2, s2, t2), m2 in maps.items():
            if d1 == 'to_c' and d2 == 'from_c' and s1 == t2 and t1 == s2:
                for a, b in m1.items():
                    back = m2.get(b) if b else None
                    if back is None:
                        back = next((v for k, v in m2.items() if k.split('::')[-1] == (b or '').split('::')[-1]), None)
                    ok = back is not None and back.split('::')[-1] == a.split('::')[-1]
                    chk.obligation(ok, {'round trip': [a, b, back]})
                    if not ok:
                        chk.violation('C20.R4', 'from_c(to_c(%s))' % a, 'round trip %s' % a,
                                      'from_c(to_c(%s)) = %s' % (a, back), cfg=cfgname)
    # Error enums have the same number of enumerators
    ce, cpp = db.enums.get('ManifoldError'), db.enums.get('manifold::Manifold::Error')
    if not ce or not cpp:
        raise AnalysisBroken('C20.R4: error enums not found')
    ok = len(ce['enumerators']) == len(cpp['enumerators'])
    chk.obligation(ok, {'ManifoldError enumerators': len(ce['enumerators']),
                        'Manifold::Error enumerators': len(cpp['enumerators'])})
    if not ok:
        chk.violation('C20.R4', 'ManifoldError', 'enumerator count', 'ManifoldError has %d enumerators, '
                      'Manifold::Error has %d' % (len(ce['enumerators']), len(cpp['enumerators'])), cfg=cfgname)
    chk.count('c20.r4.switches', len(maps))


# ---------------------------------------------------------------------------------------------------
def rule5(chk, db, cfgname, tab):
    chk.rule('C20.R5', 'for each opaque type T: manifold_alloc_T, manifold_T_size, manifold_destruct_T and '
             'manifold_delete_T agree on one C++ type; every `void* mem` parameter is the placement argument of '
             'exactly one new-expression on each returning path and the constructed type is the one the declared '
             'return type stands for')
    defs = wrappers(db)
    # opaque C type -> C++ type from the to_c overloads (reinterpret_cast wrappers)
    c2cpp = {}
    for f in db.functions.values():
        if f['file'].startswith('bindings/c/') and T.short(f['name']) == 'to_c' and len(f['params']) == 1:
            pt = db.T(f, f['params'][0]['t'])
            rt = db.T(f, f['ret'])
            if pt.get('ptr') and rt.get('ptr'):
                c2cpp[rt['s'].replace(' *', '').strip()] = ctype(db, f, pt)
    if len(c2cpp) < 10:
        raise AnalysisBroken('C20.R5: to_c pointer overloads not found (%d)' % len(c2cpp))
    types = sorted({n[len('manifold_alloc_'):] for n in defs if n.startswith('manifold_alloc_')})
    if len(types) < 10:
        raise AnalysisBroken('C20.R5: alloc family not found')
    for t in types:
        quad = {}
        fa = defs.get('manifold_alloc_' + t)
        fs = defs.get('manifold_%s_size' % t)
        fd = defs.get('manifold_destruct_' + t)
        fx = defs.get('manifold_delete_' + t)
        missing = [n for n, f in (('alloc', fa), ('size', fs), ('destruct', fd), ('delete', fx)) if f is None]
        if missing:
            chk.obligation(False, {'type': t, 'missing': missing})
            chk.violation('C20.R5', 'manifold_*_' + t, 'memory family incomplete', 'missing %s for %s' % (missing, t),
                          cfg=cfgname)
            continue
        for b in fa['blocks']:
            for ev in b['ev']:
                if ev.get('k') == 'call' and T.short(ev.get('fn', '')) == 'alloc_raw':
                    quad['alloc'] = ctype(db, fa, ev).replace('*', '').strip()
                    rt = db.T(fa, ev)
        # alloc_raw<T> returns T*: take the pointee from the callee key
        for b in fa['blocks']:
            for ev in b['ev']:
                if ev.get('k') == 'call' and T.short(ev.get('fn', '')) == 'alloc_raw' and ev.get('fk'):
                    m = re.match(r'^.*alloc_raw<(.*)> :: ', ev['fk'])
                    callee = db.functions.get(ev['fk'])
                    if callee:
                        for bb in callee['blocks']:
                            for e2 in bb['ev']:
                                for x in T.walk(e2):
                                    if x.get('k') == 'sizeof':
                                        quad['alloc'] = ctype(db, callee, x['t'])
        for b in fs['blocks']:
            for ev in b['ev']:
                for x in T.walk(ev):
                    if x.get('k') == 'sizeof':
                        quad['size'] = ctype(db, fs, x['t'])
        for b in fd['blocks']:
            for ev in b['ev']:
                if ev.get('k') == 'call' and '~' in ev.get('fn', '') and ev.get('recv') is not None:
                    quad['destruct'] = ctype(db, fd, T.strip(ev['recv']))
        for b in fx['blocks']:
            for ev in b['ev']:
                if ev.get('k') == 'delete':
                    quad['delete'] = ctype(db, fx, ev['t'])
        vals = set(quad.values())
        ok = len(quad) == 4 and len(vals) == 1
        chk.count('c20.r5.opaque_types')
        chk.obligation(ok, {'type': t, 'C++ type used by': quad})
        if not ok:
            chk.violation('C20.R5', 'manifold_*_' + t, 'memory family disagrees',
                          'alloc/size/destruct/delete of %s use %s' % (t, quad), cfg=cfgname)
        else:
            # and it is the type the opaque pointer stands for
            cn = db.T(fa, fa['ret'])['s'].replace(' *', '').strip()
            exp = c2cpp.get(cn)
            ok2 = exp is None or exp == list(vals)[0]
            chk.obligation(ok2, {'type': t, 'opaque': cn, 'to_c maps from': exp, 'family uses': list(vals)[0]})
            if not ok2:
                chk.violation('C20.R5', 'manifold_*_' + t, 'family type != to_c type',
                              '%s stands for %s but the memory family uses %s' % (cn, exp, list(vals)[0]),
                              cfg=cfgname)
    # placement new into mem
    nmem = 0
    for name, f in sorted(defs.items()):
        mems = [p['n'] for p in f['params'] if p['n'].startswith('mem') and db.T(f, p['t'])['s'] == 'void *']
        if not mems:
            continue
        g = C.Cfg(f)
        fam_helpers = []
        for mname in mems:
            nmem += 1
            # count placement-new events per path: must-be-exactly-one on every return path
            def tr(block, st):
                lo, hi = st
                for ev in block['ev']:
                    k = 0
                    if ev.get('k') == 'new' and any(param_of(p, [mname]) for p in ev.get('place', [])):
                        k = 1
                    elif ev.get('k') == 'call' and ev.get('fk') in db.functions and \
                            db.functions[ev['fk']]['file'].startswith('bindings/c/') and \
                            any(param_of(a, [mname]) for a in ev.get('args', [])):
                        k = 1      # forwarded to a helper that owns the placement (checked below)
                        fam_helpers.append((ev['fk'], mname))
                    lo, hi = lo + k, hi + k
                return (lo, hi)
            IN, _ = C.forward(g, (0, 0), tr, lambda a, b: (min(a[0], b[0]), max(a[1], b[1])))
            lo, hi = IN.get(g.exit, (0, 0))
            ok = lo == 1 and hi == 1
            chk.obligation(ok, {'wrapper': name, 'mem parameter': mname, 'placements per path': [lo, hi]})
            if not ok:
                chk.violation('C20.R5', f, 'placement into %s' % mname,
                              'the caller-provided buffer %s receives %d..%d placement-new constructions on a '
                              'returning path (must be exactly one)' % (mname, lo, hi), cfg=cfgname)
        # constructed type vs declared return type
        rt = db.T(f, f['ret'])['s'].replace(' *', '').strip()
        exp = c2cpp.get(rt)
        if exp and len(mems) == 1:
            for b in f['blocks']:
                for ev in b['ev']:
                    if ev.get('k') == 'new' and any(param_of(p, mems) for p in ev.get('place', [])):
                        got = ctype(db, f, ev['t'])
                        ok = got == exp
                        chk.obligation(ok, {'wrapper': name, 'returns': rt, 'constructs': got, 'expected': exp})
                        if not ok:
                            chk.violation('C20.R5', f, 'constructs %s' % got,
                                          'wrapper returns %s (= %s) but placement-constructs %s in the caller\'s '
                                          'buffer' % (rt, exp, got), line=ev.get('ln'), cfg=cfgname)
        # other heap allocations must not be returned
        for b in f['blocks']:
            for ev in b['ev']:
                if ev.get('k') == 'new' and not ev.get('place'):
                    chk.violation('C20.R5', f, 'non-placement new', 'a wrapper with a mem parameter allocates with '
                                  'plain new', line=ev.get('ln'), cfg=cfgname)
    chk.count('c20.r5.mem_parameters', nmem)
    # copy_data destinations are the caller's buffer
    for name, f in sorted(defs.items()):
        for b in f['blocks']:
            for ev in b['ev']:
                if ev.get('k') == 'call' and T.short(ev.get('fn', '')) == 'copy_data' and ev.get('args'):
                    pn = [p['n'] for p in f['params']]
                    ok = param_of(ev['args'][0], pn) is not None and \
                        db.T(f, [p for p in f['params'] if p['n'] == param_of(ev['args'][0], pn)][0]['t'])['s'] == 'void *'
                    chk.count('c20.r5.copy_data_sites')
                    chk.obligation(ok, {'wrapper': name, 'copy_data destination': T.pstr(ev['args'][0])})
                    if not ok:
                        chk.violation('C20.R5', f, 'copy_data destination', 'copy_data writes somewhere other than '
                                      'the caller-provided buffer', line=ev.get('ln'), cfg=cfgname)


# ---------------------------------------------------------------------------------------------------
def rule6(chk, db, cfgname, tab):
    chk.rule('C20.R6', 'a wrapper that receives a function pointer and a void* user context binds/passes that very '
             'context parameter (std::bind(fun, ..., ctx) or a direct call fun(..., ctx)) — through file-local '
             'helpers too')
    defs = wrappers(db)
    n = 0
    helpers = [f for f in db.functions.values() if f['file'].startswith('bindings/c/') and not f.get('externC')
               and f.get('kind') == 'function']
    for name, f in sorted(list(defs.items()) + [(h['name'], h) for h in helpers], key=lambda kv: kv[0]):
        fps = [p['n'] for p in f['params'] if db.T(f, p['t']).get('k') == 'fn' or '(*)' in db.T(f, p['t'])['s']]
        ctxs = [p['n'] for p in f['params'] if db.T(f, p['t'])['s'] == 'void *' and not p['n'].startswith('mem')]
        if not fps:
            continue
        n += 1
        fam = [f] + [g for k, g in db.functions.items() if k.startswith(f['key'] + '::<lambda@')]
        for fp in fps:
            ok = False
            how = 'never bound'
            for ff in fam:
                for b in ff['blocks']:
                    for ev in b['ev']:
                        if ev.get('k') != 'call':
                            continue
                        args = ev.get('args', [])
                        if T.short(ev.get('fn', '')) == 'bind' and args and param_of(args[0], [fp]):
                            last = param_of(args[-1], ctxs) if ctxs else None
                            ok = last is not None
                            how = 'std::bind(%s, ..., %s)' % (fp, T.pstr(args[-1]))
                        elif ev.get('fn') == '?' and param_of(ev.get('callee', {}), [fp]):
                            last = param_of(args[-1], ctxs) if (ctxs and args) else None
                            ok = last is not None
                            how = '%s(..., %s)' % (fp, T.pstr(args[-1]) if args else '')
                        elif ev.get('fk') in db.functions and \
                                db.functions[ev['fk']]['file'].startswith('bindings/c/') and \
                                any(param_of(a, [fp]) for a in args):
                            # forwarded to a helper together with the context
                            ok = any(param_of(a, ctxs) for a in args) if ctxs else False
                            how = 'forwarded to %s with %s' % (T.short(ev['fn']), ctxs)
            chk.obligation(ok, {'function': name, 'callback': fp, 'context': ctxs, 'bound': how})
            if not ok:
                chk.violation('C20.R6', f, 'callback %s context' % fp,
                              'the user context parameter is not what the callback is invoked with (%s)' % how,
                              cfg=cfgname)
    chk.count('c20.r6.callback_wrappers', n)


def rule7(chk, db, cfgname, tab):
    chk.rule('C20.R7', 'a wrapper never moves out of an object the caller still owns: std::move is applied only to '
             'locals of the wrapper, never to *from_c(parameter) (the C++ API it mirrors takes those by const '
             'reference / copies them)')
    defs = wrappers(db)
    n = 0
    for name, f in sorted(defs.items()):
        pn = [p['n'] for p in f['params'] if not p['n'].startswith('mem')]
        for b in f['blocks']:
            for ev in b['ev']:
                for x in T.walk(ev):
                    if x.get('k') == 'call' and x.get('fn') in ('std::move', 'std::forward') and x.get('args'):
                        n += 1
                        p = param_of(x['args'][0], pn)
                        ok = p is None
                        if x.get('i') == ev.get('i') or x is ev:
                            chk.obligation(ok, {'wrapper': name, 'line': ev.get('ln'),
                                                'std::move of': T.pstr(x['args'][0])[:60], 'caller-owned': not ok})
                        if not ok and (x is ev or x.get('i') is None or x.get('i') == ev.get('i')):
                            chk.violation('C20.R7', f, 'moves from parameter %s' % p,
                                          'std::move(*from_c(%s)) empties the object behind the caller\'s handle; '
                                          'the handle stays valid for the caller and is now hollow' % p,
                                          line=ev.get('ln'), cfg=cfgname)
    chk.count('c20.r7.move_sites', n)


def rule8(chk, db, cfgname, tab):
    chk.rule('C20.R8', 'sibling wrappers X / X_seq hand different constant flags to their shared helper, and all _seq '
             'variants of one helper hand the same constants (the sequential variant exists to keep user callbacks '
             'on the calling thread)')
    defs = wrappers(db)

    def literals(f):
        out = []
        for b in f['blocks']:
            for ev in b['ev']:
                if ev.get('k') == 'call' and ev.get('fk') in db.functions and \
                        db.functions[ev['fk']]['file'].startswith('bindings/c/') and \
                        not db.functions[ev['fk']].get('externC') and T.short(ev['fn']) not in ('to_c', 'from_c'):
                    lits = tuple((i, T.strip(a).get('v')) for i, a in enumerate(ev.get('args', []))
                                 if T.strip(a).get('k') in ('bool', 'int'))
                    out.append((T.short(ev['fn']), lits))
        return out
    groups = {}
    n = 0
    for name, f in sorted(defs.items()):
        if not name.endswith('_seq') or name[:-4] not in defs:
            continue
        a, b2 = literals(f), literals(defs[name[:-4]])
        if not a or not b2:
            continue
        n += 1
        ok = a != b2 and [x[0] for x in a] == [x[0] for x in b2]
        chk.obligation(ok, {'pair': [name[:-4], name], 'constants': [b2, a]})
        if not ok:
            chk.violation('C20.R8', f, 'same constants as %s' % name[:-4],
                          '%s passes the same constant flags %s to its helper as its non-sequential sibling' %
                          (name, a), cfg=cfgname)
        for h, lits in a:
            groups.setdefault(h, {})[name] = lits
    for h, m in groups.items():
        vals = set(m.values())
        ok = len(vals) == 1
        chk.obligation(ok, {'helper': h, '_seq variants': sorted(m), 'constants': sorted(map(str, vals))})
        if not ok:
            chk.violation('C20.R8', h, '_seq variants disagree', 'the sequential wrappers of helper %s pass different '
                          'constants: %s' % (h, {k: str(v) for k, v in m.items()}), cfg=cfgname)
    chk.count('c20.r8.seq_pairs', n)


def const_value(n):
    n = T.strip_copy(n)
    if n.get('k') in ('int', 'flt'):
        return n['v']
    if n.get('k') == 'bool':
        return bool(n['v'])
    if n.get('k') == 'un' and n.get('op') == '-':
        v = const_value(n['e'])
        return -v if v is not None else None
    if n.get('k') == 'nullptr':
        return 'nullptr'
    return None


def rule9(chk, db, cfgname):
    chk.rule('C20.R9', 'a wrapper that forwards to a sibling extern "C" wrapper with a constant argument passes the '
             'value the C++ API uses as the default of the parameter that argument finally reaches (the shorter '
             'wrapper mirrors the C++ call with the argument omitted)')
    defs = wrappers(db)
    n = 0
    for name, f in sorted(defs.items()):
        for b in f['blocks']:
            for ev in b['ev']:
                if ev.get('k') != 'call' or ev.get('fk') not in db.functions:
                    continue
                sib = db.functions[ev['fk']]
                if not sib.get('externC') or sib is f:
                    continue
                for j, a in enumerate(ev.get('args', [])):
                    c = const_value(a)
                    if c is None or j >= len(sib['params']):
                        continue
                    pname = sib['params'][j]['n']
                    # where does the sibling hand this parameter to the C++ API?
                    for ff, ev2, bn in api_calls(db, sib):
                        callee = db.functions.get(ev2.get('fk')) if ev2.get('fk') else None
                        if callee is None:
                            continue
                        for i, a2 in enumerate(ev2.get('args', [])):
                            a0 = T.strip_copy(a2)
                            if a0.get('k') == 'var' and a0.get('n') == pname and i < len(callee['params']) and \
                                    callee['params'][i].get('def') is not None:
                                d = const_value(callee['params'][i]['def'])
                                n += 1
                                ok = d is not None and d == c
                                chk.obligation(ok, {'wrapper': name, 'forwards to': sib['name'], 'constant': c,
                                                    'reaches': '%s(%s)' % (T.short(bn), callee['params'][i]['n']),
                                                    'C++ default': d})
                                if not ok:
                                    chk.violation('C20.R9', f, '%s forwards %s=%s, C++ default %s' % (name, pname, c, d),
                                                  '%s forwards to %s with %s = %s, which reaches %s(%s); the C++ call '
                                                  'it mirrors leaves that argument at its default %s, so the two '
                                                  'disagree' % (name, sib['name'], pname, c, T.short(bn),
                                                                callee['params'][i]['n'], d),
                                                  line=ev.get('ln'), cfg=cfgname)
    chk.count('c20.r9.forwarded_constants', n)


def rule10(chk, db, cfgname):
    chk.rule('C20.R10', 'a binding function that receives the caller\'s buffer `mem` and returns a pointer returns that '
             'buffer on every path: each return value is rooted at mem (a cast of it, a local initialised from it, a '
             'placement-new at it, or a call that is handed mem) - never nullptr or another pointer (the documented '
             'idiom is p = getter(malloc(n), x); ... free(p))')
    n = 0
    for f in db.functions.values():
        if not f.get('blocks') or not f['file'].startswith('bindings/c/'):
            continue
        if not any(p['n'] == 'mem' for p in f['params']):
            continue
        rt = db.T(f, f['ret']) if isinstance(f.get('ret'), int) else {}
        if not rt.get('ptr') and not (rt.get('c') or '').rstrip().endswith('*'):
            continue
        derived = {'mem'}
        changed = True
        while changed:
            changed = False
            for b in f['blocks']:
                for e in b['ev']:
                    if e.get('k') == 'decl':
                        for v in e['vars']:
                            if v.get('init') is not None and v['n'] not in derived and any(
                                    isinstance(y, dict) and y.get('k') == 'var' and y.get('n') in derived
                                    for y in T.walk(v['init'])):
                                derived.add(v['n'])
                                changed = True
        for b in f['blocks']:
            for e in b['ev']:
                if e.get('k') != 'return' or 'e' not in e:
                    continue
                n += 1
                ok = any(isinstance(y, dict) and y.get('k') == 'var' and y.get('n') in derived for y in T.walk(e['e']))
                chk.obligation(ok, {'function': f['key'].split(' :: ')[0][:60], 'line': e.get('ln'),
                                    'returns': T.pstr(e['e'])[:40], 'rooted at mem': ok})
                if not ok:
                    chk.violation('C20.R10', f, 'returns %s instead of mem' % T.pstr(e['e'])[:30],
                                  'a path returns %s, which is not the caller\'s buffer: the caller loses the pointer it '
                                  'must free (or dereferences null)' % T.pstr(e['e'])[:40], line=e.get('ln'),
                                  cfg=cfgname)
    chk.count('c20.r10.mem_returns', n)


def main(chk, tier):
    import db as D
    configs = ['seq'] if tier == 'quick' else ['seq', 'par']
    tab = load_table()
    for cfgname in configs:
        db = D.load(cfgname)
        chk.configs.append(cfgname)
        chk.units = len(db.units)
        chk.functions_analysed += len(db.functions)
        rule1(chk, db, cfgname)
        rule2(chk, db, cfgname, tab)
        rule3(chk, db, cfgname, tab)
        rule4(chk, db, cfgname, tab)
        rule5(chk, db, cfgname, tab)
        rule6(chk, db, cfgname, tab)
        rule7(chk, db, cfgname, tab)
        rule8(chk, db, cfgname, tab)
        rule9(chk, db, cfgname)
        rule10(chk, db, cfgname)
    n = len(configs)
    chk.floor('c20.r10.mem_returns', 80 * n)
    chk.floor('c20.r1.declarations', 280 * n)
    chk.floor('c20.r2.wrappers', 100 * n)
    chk.floor('c20.r3.bound_arguments', 80 * n)
    chk.floor('c20.r4.enumerators', 20 * n)
    chk.floor('c20.r5.opaque_types', 12 * n)
    chk.floor('c20.r5.mem_parameters', 50 * n)
    chk.floor('c20.r6.callback_wrappers', 6 * n)
    chk.floor('c20.r8.seq_pairs', 2 * n)
    return chk.finish(
        'Per-wrapper conformance of all extern "C" functions of bindings/c against manifoldc.h and the C++ API, over '
        'the type-resolved program database: declaration/definition coverage, the member each wrapper reaches, '
        'argument-to-parameter name agreement (swapped-argument rule), enum table totality/name preservation/'
        'inverse, one C++ type per opaque memory family and exactly one placement new into each caller buffer, '
        'callback context binding. Decides wrapper faithfulness; not the behaviour of the C++ callee, nor layout '
        'compatibility of reinterpret_cast pairs, nor leaks in caller code.',
        assumptions=['snake_case/CamelCase name normalisation identifies the intended member; exceptions are the '
                     'explicit alias table tables/c20.json',
                     'the binding does not depend on MANIFOLD_PAR (quick tier parses the seq configuration only)'])
