"""C17 — constructors produce the defined solid (structural clause): invalid arguments give InvalidConstruction.

The validation ladder at the head of each constructor is interpreted by the checker on a finite set of
representative argument values per scalar parameter {-inf, negative, zero, positive, +inf, NaN} (ints: negative,
zero, positive), one parameter at a time with the others valid.  The set of representatives that PASS the ladder
must be contained in the documented domain of the parameter, and every rejecting exit must produce
InvalidConstruction (Invalid() / MakeEmpty(Error::InvalidConstruction)), not a default NoError object.
"""
import json
import math
import os

import cfg as C
import tree as T
from db import AnalysisBroken, VERIF

INF = float('inf')
NAN = float('nan')
DREPS = [('-inf', -INF), ('negative', -1.5), ('zero', 0.0), ('positive', 2.5), ('+inf', INF), ('NaN', NAN)]
IREPS = [('negative', -5), ('zero', 0), ('positive', 7)]
DOMAINS = {
    'pos_finite': {'positive'},
    'nonneg_finite': {'zero', 'positive'},
    'finite': {'negative', 'zero', 'positive'},
    'nonneg_int': {'zero', 'positive'},
    'any_int': {'negative', 'zero', 'positive'},
    'pos': {'positive', '+inf'},
}


class Stop(Exception):
    pass


def load_table():
    return json.load(open(os.path.join(VERIF, 'rules', 'tables', 'c17.json')))


class Vec(list):
    pass


def ev(node, env):
    """interpret an expression on concrete representative values; raise Stop when outside the fragment"""
    n = T.strip_copy(node)
    k = n.get('k')
    if k in ('int', 'flt'):
        v = n['v']
        if isinstance(v, str):
            return {'inf': INF, '-inf': -INF, 'nan': NAN}[v]
        return v
    if k == 'bool':
        return n['v']
    if k == 'var':
        if n['n'] in env:
            return env[n['n']]
        raise Stop('free variable ' + n['n'])
    if k == 'mem' and n['n'] in ('x', 'y', 'z', 'w'):
        b = ev(n['base'], env)
        if isinstance(b, Vec):
            return b['xyzw'.index(n['n'])]
        raise Stop('component of non-vector')
    if k == 'mem' and n['n'] in ('min', 'max'):
        b = ev(n['base'], env)
        if isinstance(b, dict) and n['n'] in b:
            return b[n['n']]
        raise Stop('box field')
    if k == 'un':
        v = ev(n['e'], env)
        if n['op'] == '!':
            return not v
        if n['op'] == '-':
            return Vec(-x for x in v) if isinstance(v, Vec) else -v
        raise Stop('unary ' + n['op'])
    if k == 'bin':
        op = n['op']
        if op in ('&&', '||'):
            # three-valued: an operand outside the fragment is unknown; the absorbing value of the other decides
            absorbing = (op == '||')
            vals = []
            for side in ('l', 'r'):
                try:
                    vals.append(bool(ev(n[side], env)))
                except Stop:
                    vals.append(None)
                if vals[-1] is absorbing:
                    return absorbing
            if None in vals:
                raise Stop('unknown operand of ' + op)
            return not absorbing
        a, b = ev(n['l'], env), ev(n['r'], env)
        if op in ('<', '<=', '>', '>=', '==', '!='):
            if isinstance(a, Vec) or isinstance(b, Vec):
                raise Stop('vector comparison')
            return {'<': a < b, '<=': a <= b, '>': a > b, '>=': a >= b, '==': a == b, '!=': a != b}[op]
        if op in ('+', '-', '*', '/'):
            def f(x, y):
                try:
                    return {'+': x + y, '-': x - y, '*': x * y, '/': x / y}[op]
                except ZeroDivisionError:
                    if x != x or x == 0:
                        return NAN
                    return INF if (x > 0) == (math.copysign(1, y) > 0) else -INF
                except (OverflowError, ValueError):
                    return NAN
            if isinstance(a, Vec) and isinstance(b, Vec):
                return Vec(f(x, y) for x, y in zip(a, b))
            if isinstance(a, Vec):
                return Vec(f(x, b) for x in a)
            if isinstance(b, Vec):
                return Vec(f(a, y) for y in b)
            return f(a, b)
        raise Stop('binary ' + op)
    if k == 'call':
        nm = T.short(n.get('fn', ''))
        args = n.get('args', [])
        if nm == 'isfinite' and len(args) == 1:
            v = ev(args[0], env)
            if isinstance(v, Vec):
                return Vec(not (math.isinf(x) or x != x) for x in v)
            return not (math.isinf(v) or v != v)
        if nm == 'isnan' and len(args) == 1:
            v = ev(args[0], env)
            return v != v
        if nm in ('all', 'any') and len(args) == 1:
            v = ev(args[0], env)
            return all(v) if nm == 'all' else any(v)
        if nm == 'length' and len(args) == 1:
            v = ev(args[0], env)
            s = 0.0
            for x in v:
                s += x * x
            return math.sqrt(s) if s == s and s != INF else s
        if nm in ('abs', 'fabs') and len(args) == 1:
            return abs(ev(args[0], env))
        if nm in ('max', 'fmax') and len(args) == 2:
            a, b = ev(args[0], env), ev(args[1], env)
            return b if (a < b) else a          # std::max semantics (NaN-propagating on the first argument)
        if nm in ('min', 'fmin') and len(args) == 2:
            a, b = ev(args[0], env), ev(args[1], env)
            return b if (b < a) else a
        if nm == 'IsFinite' and n.get('recv') is not None:
            b = ev(n['recv'], env)
            if isinstance(b, dict):
                return all(not (math.isinf(x) or x != x) for v in b.values() for x in v)
        if nm == 'IsCancelled':
            return False          # validation is analysed for an uncancelled call
        if nm in ('size', 'empty') and n.get('recv') is not None:
            r = T.strip(n['recv'])
            if r.get('k') == 'var' and ('#' + r['n']) in env:
                sz = env['#' + r['n']]
                return sz if nm == 'size' else sz == 0
        raise Stop('call ' + nm)
    if k == 'ctor' and len(n.get('args', [])) == 1:
        return ev(n['args'][0], env)
    raise Stop('node ' + str(k))


def classify_exit(db, fn, block, table_entry):
    """'invalid' | 'noerror' | None for the events of a block that returns / empties"""
    for e in block['ev']:
        if e.get('k') == 'call' and T.short(e.get('fn', '')) == 'MakeEmpty' and e.get('args'):
            s = T.pstr(e['args'][0])
            return 'invalid' if s.endswith('InvalidConstruction') else 'other:' + T.short(s)
        if e.get('k') == 'return' and 'e' in e:
            r = T.strip_copy(e['e'])
            if r.get('k') == 'call' and T.short(r.get('fn', '')) == 'Invalid':
                return 'invalid'
            if r.get('k') == 'call' and T.short(r.get('fn', '')) == 'PropagateStatus':
                return 'status'
            if r.get('k') == 'ctor' and T.basename(r.get('cls', '')) == 'manifold::Manifold' and not r.get('args'):
                return 'noerror'
    return None


def run_ladder(db, fn, env0, entry):
    """path-feasibility search: follow the CFG from the entry; branches whose condition the interpreter can
    evaluate on env are decided, the others are explored both ways.  The argument is REJECTED iff every feasible
    path ends in a rejecting exit; returns ('rejected', kinds, line) or ('passed', reason)."""
    g = C.Cfg(fn)
    seen = set()
    rejects = []
    passed = []
    stack = [(g.entry, env0)]
    steps = 0
    while stack and steps < 5000:
        steps += 1
        b, env = stack.pop()
        key = (b, repr(sorted((k, repr(v)) for k, v in env.items())))
        if key in seen:
            continue
        seen.add(key)
        blk = g.blocks[b]
        if b == g.exit:
            passed.append('normal exit')
            continue
        k = classify_exit(db, fn, blk, entry)
        if k:
            rejects.append((k, blk['ev'][-1].get('ln') if blk['ev'] else None))
            continue
        env = dict(env)
        for e in blk['ev']:
            if e.get('k') == 'bin' and e.get('op') == '=':
                l = T.strip(e['l'])
                try:
                    if l.get('k') == 'var' and l['n'] in env:
                        env[l['n']] = ev(e['r'], env)
                    elif l.get('k') == 'mem' and l['n'] in 'xyzw' and T.strip(l['base']).get('k') == 'var' and \
                            T.strip(l['base'])['n'] in env:
                        v = Vec(env[T.strip(l['base'])['n']])
                        v['xyzw'.index(l['n'])] = ev(e['r'], env)
                        env[T.strip(l['base'])['n']] = v
                except Stop:
                    pass
            if e.get('k') == 'un' and e.get('op') in ('++', '--'):
                t = T.strip(e['e'])
                if t.get('k') == 'var' and t['n'] in env and isinstance(env[t['n']], int):
                    env[t['n']] += 1 if e['op'] == '++' else -1
        ss = blk['succ']
        cond, _ = C.branch_cond(blk)
        if cond is not None and len(ss) == 2:
            try:
                v = bool(ev(cond, env))
                nxt = [ss[0] if v else ss[1]]
            except Stop:
                nxt = list(ss)
        else:
            nxt = list(ss)
        for s in nxt:
            if s is not None and s >= 0:
                stack.append((s, env))
    if passed:
        return ('passed', passed[0])
    if rejects:
        kinds = sorted({r[0] for r in rejects})
        return ('rejected', kinds[0] if len(kinds) == 1 else '/'.join(kinds), rejects[0][1])
    return ('passed', 'search limit')


def local_inits(fn):
    out = {}
    for b in fn.get('blocks', []):
        for e in b['ev']:
            if e.get('k') == 'decl':
                for v in e['vars']:
                    if v.get('init') is not None:
                        out.setdefault(v['n'], []).append(v['init'])
    return out


def is_det_negative(db, fn, cond, inits, pname):
    """cond (already on its true edge) is `determinant(mat3(P)) < 0` possibly through one local bool"""
    c = T.strip_copy(cond)
    if c.get('k') == 'var' and c['n'] in inits and len(inits[c['n']]) == 1:
        c = T.strip_copy(inits[c['n']][0])
    if c.get('k') != 'bin' or c.get('op') not in ('<', '>'):
        return False
    l, r = T.strip_copy(c['l']), T.strip_copy(c['r'])
    if c['op'] == '>':
        l, r = r, l
    if not (r.get('k') in ('int', 'flt') and r.get('v') in (0, 0.0)):
        return False
    if not (l.get('k') == 'call' and T.short(l.get('fn', '')) == 'determinant'):
        return False
    return pname is None or any(x.get('k') == 'var' and x['n'] == pname for x in T.walk(l))


def rule_flip(chk, db, cfgname):
    chk.rule('C17.2', 'wherever vertex positions are mapped by a matrix (Impl::Transform, CsgLeafNode::Compose) the '
             'triangle orientation is reversed (FlipTris) exactly when the determinant of its linear part is negative: '
             'the flip is control-dependent on determinant(mat3(m)) < 0 and on nothing that the position transform '
             'itself does not depend on')
    nsite = 0
    for fn in db.functions.values():
        if not fn.get('blocks') or fn['file'].endswith(('parallel.h', 'iters.h', 'vec.h')):
            continue
        flips = []
        for b in fn['blocks']:
            for e in b['ev']:
                if e.get('k') in ('ilist', 'ctor', 'cast') and \
                        (db.T(fn, e.get('t', 0)).get('r') or '').endswith('::FlipTris') and \
                        not fn['name'].endswith('FlipTris'):
                    flips.append((b['id'], e.get('ln')))
                    break
        if not flips:
            continue
        g = C.Cfg(fn)
        inits = local_inits(fn)
        dom = g.dominators()
        # the position transform: a transform/copy_n/copy call writing X.vertPos_ that dominates the flip
        for bid, ln in flips:
            nsite += 1
            sites = []
            for b in fn['blocks']:
                if b['id'] not in dom.get(bid, ()):
                    continue
                for e in b['ev']:
                    if e.get('k') == 'call' and T.short(e.get('fn', '')) in ('transform', 'copy_n') and \
                            any(isinstance(y, dict) and y.get('k') == 'mem' and y.get('n') == 'vertPos_'
                                for a in e.get('args', []) for y in T.walk(a)):
                        sites.append(b['id'])
            if not sites:
                raise AnalysisBroken('C17.2: no position transform dominating the FlipTris in %s' % fn['name'])
            site = max(sites, key=lambda x: len(dom.get(x, ())))
            def closure(x):
                out, work = set(), [x]
                while work:
                    y = work.pop()
                    for dk in g.control_deps(y):
                        if dk not in out:
                            out.add(dk)
                            work.append(dk[0])
                return out
            common = closure(site)
            deps = closure(bid) - common
            good = []
            extra = []
            for d, k in deps:
                cond, _ = C.branch_cond(g.blocks[d])
                inner, neg = C.split_negation(cond) if cond is not None else (None, False)
                if inner is not None and (k == 0) != neg and is_det_negative(db, fn, inner, inits, None):
                    good.append(d)
                else:
                    extra.append(T.pstr(cond)[:60] if cond is not None else '?')
            ok = bool(good) and not extra
            chk.obligation(ok, {'function': fn['name'][:80], 'line': ln, 'FlipTris under': 'determinant(mat3(m)) < 0'
                                if ok else 'extra conditions %s, determinant test %s' % (extra, bool(good))})
            if not ok:
                chk.violation('C17.2', fn, 'FlipTris not exactly under det<0',
                              'the orientation flip is %s: a reflected solid comes out inside-out (or a proper '
                              'transform gets reversed)' % ('also conditional on ' + '; '.join(extra) if good else
                                                            'not controlled by determinant(mat3(m)) < 0'),
                              line=ln, cfg=cfgname)
    chk.count('c17.2.flip_sites', nsite)
    # every function that maps positions by a matrix has a flip: the two reviewed sites must still exist
    if nsite < 2:
        for want in ('manifold::Manifold::Impl::Transform', 'manifold::CsgLeafNode::Compose'):
            fs = [f for f in db.functions.values() if f['name'].split('::<lambda')[0] == want and f.get('blocks')]
            has = any((db.T(f, e.get('t', 0)).get('r') or '').endswith('::FlipTris')
                      for f in fs for b in f['blocks'] for e in b['ev'] if e.get('k') in ('ilist', 'ctor', 'cast'))
            if fs and not has:
                chk.obligation(False, {'function': want, 'FlipTris': 'ABSENT'})
                chk.violation('C17.2', fs[0], 'no FlipTris in %s' % T.short(want),
                              '%s maps vertex positions by a matrix but no longer reverses the triangle winding for '
                              'a negative determinant: the mirrored solid is inside-out' % want, cfg=cfgname)


TRIG = {'sin', 'cos', 'tan', 'sincos'}


def rule_degrees(chk, db, cfgname):
    chk.rule('C17.3', 'a rotation angle given in degrees reaches trigonometry only through sind/cosd (exact at '
             'multiples of 90 degrees): in every Rotate the degree parameters are used only as arguments of sind/cosd '
             'or forwarded to another Rotate')
    n = 0
    for f in db.functions.values():
        if not f.get('blocks') or T.short(f['name']) != 'Rotate' or not f['name'].startswith('manifold::'):
            continue
        ps = [p['n'] for p in f['params'] if 'egrees' in p['n']]
        if not ps:
            continue
        for b in f['blocks']:
            for e in b['ev']:
                if e.get('k') not in ('call', 'bin', 'un', 'ctor', 'decl', 'return', 'ilist'):
                    continue
                # direct operands only
                kids = []
                if e['k'] == 'call':
                    kids = e.get('args', [])
                elif e['k'] == 'bin':
                    kids = [e['l'], e['r']]
                elif e['k'] == 'un':
                    kids = [e['e']]
                elif e['k'] in ('ctor', 'ilist'):
                    kids = e.get('args', [])
                elif e['k'] == 'decl':
                    kids = [v['init'] for v in e['vars'] if v.get('init') is not None]
                elif e['k'] == 'return':
                    kids = [e['e']] if e.get('e') is not None else []
                for kid in kids:
                    x = T.strip_copy(kid)
                    if x.get('k') == 'var' and x['n'] in ps:
                        n += 1
                        callee = T.short(e.get('fn', '')) if e['k'] == 'call' else None
                        ok = callee in ('sind', 'cosd', 'Rotate')
                        # comparisons against constants (e.g. early-out on zero) are harmless
                        if e['k'] == 'bin' and e.get('op') in ('==', '!=', '<', '>', '<=', '>='):
                            ok = True
                        chk.obligation(ok, {'function': f['name'], 'line': e.get('ln'), 'parameter': x['n'],
                                            'used by': callee or (e['k'] + ' ' + str(e.get('op', '')))})
                        if not ok:
                            chk.violation('C17.3', f, '%s used by %s' % (x['n'], callee or e['k'] + str(e.get('op', ''))),
                                          'the degree argument %s is consumed by %s instead of sind/cosd: rotations by '
                                          'multiples of 90 degrees are no longer exact' %
                                          (x['n'], T.pstr(e)[:80]), line=e.get('ln'), cfg=cfgname)
    chk.count('c17.3.degree_uses', n)


def rule_level(chk, db, cfgname):
    chk.rule('C17.4', 'LevelSet: every evaluation of the user signed-distance function is used relative to the '
             'requested level (sdf(p) - level, directly or through one local): the extracted surface is {sdf = level}, '
             'both at the grid corners and in the root refinement')
    n = 0
    for f in db.functions.values():
        if not f.get('blocks') or f['file'] != 'src/sdf.cpp':
            continue
        # locals holding an sdf value
        holds = {}
        for b in f['blocks']:
            for e in b['ev']:
                if e.get('k') == 'decl':
                    for v in e['vars']:
                        i = v.get('init')
                        if i is not None and _is_sdf_call(db, f, T.strip_copy(i)):
                            holds[v['n']] = e.get('ln')
        subtracted = set()
        direct = []
        for b in f['blocks']:
            for e in b['ev']:
                for x in T.walk(e):
                    if not isinstance(x, dict):
                        continue
                    if x.get('k') == 'bin' and x.get('op') == '-':
                        l, r = T.strip_copy(x['l']), T.strip_copy(x['r'])
                        rl = r.get('n') if r.get('k') in ('var', 'mem') else None
                        if rl == 'level':
                            if _is_sdf_call(db, f, l):
                                direct.append(l.get('i'))
                            if l.get('k') == 'var' and l['n'] in holds:
                                subtracted.add(l['n'])
        seen = set()
        for b in f['blocks']:
            for e in b['ev']:
                if e.get('k') == 'call' and _is_sdf_call(db, f, e) and e.get('i') not in seen:
                    seen.add(e.get('i'))
                    n += 1
                    ok = e.get('i') in direct
                    if not ok:
                        # initialiser of a local that is later reduced by level
                        for bb in f['blocks']:
                            for ee in bb['ev']:
                                if ee.get('k') == 'decl':
                                    for v in ee['vars']:
                                        i = v.get('init')
                                        if i is not None and T.strip_copy(i).get('i') == e.get('i') and \
                                                v['n'] in subtracted:
                                            ok = True
                    chk.obligation(ok, {'function': f['name'][:60], 'line': e.get('ln'), 'sdf evaluation': T.pstr(e)[:40],
                                        'relative to level': ok})
                    if not ok:
                        chk.violation('C17.4', f, 'sdf value used without level',
                                      '%s is not reduced by `level`: this evaluation locates the surface sdf = 0 '
                                      'instead of sdf = level' % T.pstr(e)[:40], line=e.get('ln'), cfg=cfgname)
    chk.count('c17.4.sdf_evaluations', n)


def _is_sdf_call(db, f, n):
    if n.get('k') != 'call' or n.get('op') != '()' or n.get('recv') is None:
        return False
    r = T.strip_copy(n['recv'])
    t = db.T(f, r) if 't' in r else {}
    return (t.get('r') == 'std::function' or 'std::function' in (t.get('c') or '')) and \
        r.get('k') in ('var', 'mem') and 'sdf' in r.get('n', '').lower()


def main(chk, tier):
    import db as D
    configs = ['seq'] if tier == 'quick' else ['seq', 'par']
    tab = load_table()
    chk.rule('C17.1', 'for each scalar parameter of Cube, Cylinder, Sphere, Extrude, Revolve and LevelSet the set of '
             'representative values {-inf, negative, zero, positive, +inf, NaN} (ints: negative, zero, positive) that '
             'pass the constructor\'s validation ladder is contained in the documented domain, and every rejecting '
             'exit yields InvalidConstruction')
    for cfgname in configs:
        db = D.load(cfgname)
        chk.configs.append(cfgname)
        chk.units = len(db.units)
        chk.functions_analysed += len(db.functions)
        for ent in tab['constructors']:
            fs = [f for f in db.fn(ent['body']) if len(f['params']) >= len({p.split('.')[0] for p in ent['params']})]
            if 'arity' in ent:
                fs = [f for f in fs if len(f['params']) == ent['arity']]
            if len(fs) != 1:
                raise AnalysisBroken('C17: body %s not found uniquely (%d)' % (ent['body'], len(fs)))
            fn = fs[0]
            base = {}
            for p in fn['params']:
                t = db.T(fn, p['t'])
                spec = ent['params'].get(p['n'])
                if t.get('r') == 'linalg::vec':
                    dim = int((t.get('targs') or ['', '3'])[1])
                    base[p['n']] = Vec([1.0] * dim)
                elif t.get('r') == 'manifold::Box':
                    base[p['n']] = {'min': Vec([-1.0, -1.0, -1.0]), 'max': Vec([1.0, 1.0, 1.0])}
                elif t.get('k') == 'f':
                    base[p['n']] = ent.get('valid', {}).get(p['n'], 1.0)
                elif t.get('k') == 'i':
                    base[p['n']] = ent.get('valid', {}).get(p['n'], 8)
                elif t.get('k') == 'b':
                    base[p['n']] = False
                elif t.get('r') == 'std::vector':
                    base['#' + p['n']] = 1
            for pname, dom in ent['params'].items():
                comps = [None]
                p = [q for q in fn['params'] if q['n'] == pname.split('.')[0]]
                if not p:
                    raise AnalysisBroken('C17: parameter %s of %s vanished' % (pname, ent['body']))
                t = db.T(fn, p[0]['t'])
                reps = IREPS if t.get('k') == 'i' else DREPS
                passed = set()
                bad_exit = []
                for label, val in reps:
                    env = {k: (Vec(v) if isinstance(v, Vec) else (dict(v) if isinstance(v, dict) else v))
                           for k, v in base.items()}
                    if '.' in pname:
                        vn, comp = pname.split('.')
                        if isinstance(env[vn], dict):
                            fld, ax = comp[:3], comp[3:]
                            vv = Vec(env[vn][fld])
                            vv['xyz'.index(ax)] = val
                            env[vn] = dict(env[vn])
                            env[vn][fld] = vv
                        else:
                            vv = Vec(env[vn])
                            vv['xyzw'.index(comp)] = val
                            env[vn] = vv
                    else:
                        env[pname] = val
                    res = run_ladder(db, fn, env, ent)
                    if res[0] == 'passed':
                        passed.add(label)
                    elif any(kk not in ('invalid', 'status') for kk in res[1].split('/')):
                        bad_exit.append((label, res[1], res[2]))
                allowed = DOMAINS[dom]
                extra = sorted(passed - allowed)
                chk.count('c17.1.parameters')
                chk.count('c17.1.evaluations', len(reps))
                ok = not extra and not bad_exit
                chk.obligation(ok, {'constructor': ent['api'], 'parameter': pname, 'documented domain': dom,
                                    'representatives passing validation': sorted(passed),
                                    'rejections without InvalidConstruction': bad_exit})
                if extra:
                    chk.violation('C17.1', fn, '%s(%s) accepts %s' % (ent['api'], pname, ','.join(extra)),
                                  'argument %s of %s passes validation for %s although its documented domain is %s: an '
                                  'invalid argument does not give InvalidConstruction' %
                                  (pname, ent['api'], '/'.join(extra), dom), cfg=cfgname)
                if bad_exit:
                    chk.violation('C17.1', fn, '%s(%s) rejects with %s' % (ent['api'], pname, bad_exit[0][1]),
                                  'argument %s = %s is rejected but the exit produces %s instead of '
                                  'InvalidConstruction' % (pname, bad_exit[0][0], bad_exit[0][1]),
                                  line=bad_exit[0][2], cfg=cfgname)
        rule_flip(chk, db, cfgname)
        rule_degrees(chk, db, cfgname)
        rule_level(chk, db, cfgname)
    n = len(configs)
    chk.floor('c17.1.parameters', 12 * n)
    chk.floor('c17.2.flip_sites', 1 * n)
    chk.floor('c17.3.degree_uses', 14 * n)
    chk.floor('c17.4.sdf_evaluations', 2 * n)
    return chk.finish(
        'Finite-domain abstract evaluation of the validation ladder of every 3D constructor: the checker interprets '
        'the comparison / isfinite / length conditions along the CFG from the entry on representative argument values '
        '(IEEE comparison semantics, NaN compares false) and requires the passing set to lie inside the documented '
        'domain and every rejection to be InvalidConstruction. Membership of points relative to the analytic shape, '
        'volume scaling under transforms and exactness at multiples of 90 degrees are numeric and not decided.',
        assumptions=['documented domains are taken from the doc comments (tables/c17.json)',
                     'one parameter is varied at a time with the others valid'])
