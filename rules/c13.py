"""C13 — parallel primitives equal their sequential specification (protocol clauses).

C13.1 identity arguments: the value handed to TBB as the identity of a functional reduce/scan does not depend on
      the parameter the sequential branch passes to the std:: algorithm as `init`
C13.2 body protocol: split constructors restart from the identity, reverse_join applies the LEFT partial first,
      assign copies the partial
C13.3 sequential siblings: the non-TBB branch of each wrapper calls the std:: algorithm of the same name with the
      wrapper's parameters in order
C13.4 lock-free containers: atomic-only key-slot access and strong CAS (C06.R1c / C06.R4)
C13.5 identity at call sites: every library call of reduce/transform_reduce passes an identity of its operator
"""
import json
import os

import cfg as C
import tree as T
from db import AnalysisBroken, VERIF


def load_table():
    return json.load(open(os.path.join(VERIF, 'rules', 'tables', 'c13.json')))


def wrappers(db):
    return [f for f in db.functions.values()
            if f['file'] == 'src/parallel.h' and f.get('blocks') and f.get('kind') == 'function'
            and f['name'].startswith('manifold::') and not f['name'].startswith('manifold::details::')]


def rule1(chk, db, cfgname):
    chk.rule('C13.1', 'the identity given to tbb::parallel_reduce / tbb::parallel_scan (functional form) is not '
             'data-dependent on the wrapper parameter that the sequential branch passes to std:: as `init`: std '
             'applies init once, TBB applies its identity once per body it creates')
    n = 0
    for f in wrappers(db):
        fam = [f] + [g for k, g in db.functions.items() if k.startswith(f['key'] + '::<lambda@')]
        seq_init = set()
        for ff in fam:
            for b in ff['blocks']:
                for ev in b['ev']:
                    if ev.get('k') == 'call' and ev.get('fn', '').startswith('std::') and \
                            T.short(ev['fn']) in ('reduce', 'exclusive_scan', 'transform_reduce', 'accumulate'):
                        a = T.arg_of(ev, '__init')
                        if a is not None:
                            for x in T.walk(a):
                                if x.get('k') == 'var' and x.get('s') == 'p':
                                    seq_init.add(x['n'])
        for ff in fam:
            for b in ff['blocks']:
                for ev in b['ev']:
                    if ev.get('k') == 'call' and ev.get('fn', '') in ('tbb::detail::d1::parallel_reduce',
                                                                     'tbb::detail::d1::parallel_scan',
                                                                     'tbb::parallel_reduce', 'tbb::parallel_scan') \
                            and len(ev.get('args', [])) >= 3:
                        n += 1
                        ident = ev['args'][1]
                        dep = sorted({x['n'] for x in T.walk(ident) if x.get('k') == 'var' and x['n'] in seq_init})
                        ok = not dep
                        chk.obligation(ok, {'wrapper': f['name'], 'line': ev.get('ln'),
                                            'identity argument': T.pstr(ident)[:60], 'depends on init': dep})
                        if not ok:
                            chk.violation('C13.1', T.basename(f['name']), 'identity <- %s' % ','.join(dep),
                                          'the caller\'s init (%s) is handed to TBB as the reduction identity: it is '
                                          'folded in once per body TBB creates, so a non-identity init gives a '
                                          'schedule-dependent result' % ','.join(dep), file=f['file'],
                                          line=ev.get('ln'), cfg=cfgname)
    chk.count('c13.1.functional_tbb_calls', n)


def rule2(chk, db, cfgname):
    chk.rule('C13.2', 'scan/reduce body classes follow the TBB protocol: the split constructor initialises the partial '
             'from the identity (never from the other body\'s partial); reverse_join(a) computes op(a.partial, '
             'partial) — left operand first; assign copies the partial')
    n = 0
    bodies = {}
    for f in db.functions.values():
        if f['file'] == 'src/parallel.h' and f.get('cls') and 'details::' in f['cls'] and f.get('blocks'):
            bodies.setdefault(T.basename(f['cls']), []).append(f)
    for cls, fs in sorted(bodies.items()):
        for f in fs:
            nm = T.short(f['name'])
            if f.get('kind') == 'ctor' and len(f['params']) == 2 and 'split' in db.T(f, f['params'][1]['t']).get('s', ''):
                other = f['params'][0]['n']
                for b in f['blocks']:
                    for ev in b['ev']:
                        if ev.get('k') == 'init' and ev['n'] == 'sum':
                            n += 1
                            e = T.pstr(ev['e'])
                            ok = (other + '.sum') not in e
                            chk.obligation(ok, {'class': cls, 'split constructor': 'sum(%s)' % e})
                            if not ok:
                                chk.violation('C13.2', T.basename(f['name']), 'split copies partial',
                                              'the split constructor starts from the other body\'s partial result: '
                                              'the left prefix is counted twice', file=f['file'], line=ev.get('ln'),
                                              cfg=cfgname)
            if nm in ('reverse_join', 'join') and f['params']:
                a = f['params'][0]['n']
                for b in f['blocks']:
                    for ev in b['ev']:
                        asg = None
                        if ev.get('k') == 'bin' and ev.get('op') == '=':
                            asg = ev['r']
                        elif ev.get('k') == 'call' and ev.get('op') == '=' and ev.get('args'):
                            asg = ev['args'][0]
                        if asg is None:
                            continue
                        l = T.pstr(ev['l'] if ev.get('k') == 'bin' else ev['recv'])
                        if not l.endswith('sum'):
                            continue
                        n += 1
                        r = T.strip_copy(asg)
                        first = second = None
                        if r.get('k') == 'call' and len(r.get('args', [])) == 2:
                            first, second = T.pstr(r['args'][0]), T.pstr(r['args'][1])
                        elif r.get('k') == 'bin':
                            first, second = T.pstr(r['l']), T.pstr(r['r'])
                        want_first = (a + '.sum') if nm == 'reverse_join' else 'this->sum'
                        ok = first is not None and first.replace('this->', '') == want_first.replace('this->', '')
                        chk.obligation(ok, {'class': cls, nm: '%s op %s' % (first, second)})
                        if not ok:
                            chk.violation('C13.2', T.basename(f['name']), 'join operand order',
                                          '%s combines (%s, %s): the left partial must come first for a '
                                          'non-commutative operator' % (nm, first, second), file=f['file'],
                                          line=ev.get('ln'), cfg=cfgname)
            if nm == 'assign' and f['params']:
                bname = f['params'][0]['n']
                ok = any(ev.get('k') in ('bin', 'call') and (bname + '.sum') in T.pstr(ev.get('r') or (ev.get('args') or [{}])[0])
                         for b in f['blocks'] for ev in b['ev'] if ev.get('op') == '=')
                n += 1
                chk.obligation(ok, {'class': cls, 'assign copies partial': ok})
                if not ok:
                    chk.violation('C13.2', T.basename(f['name']), 'assign', 'assign() does not copy the partial',
                                  file=f['file'], line=f['line'], cfg=cfgname)
    chk.count('c13.2.protocol_members', n)


def rule3(chk, db, cfgname, tab):
    chk.rule('C13.3', 'the sequential branch of every policy-taking wrapper in parallel.h calls the std:: algorithm of '
             'the same name with the wrapper\'s parameters in the same order (stable_sort -> std::stable_sort, never '
             'std::sort), so the MANIFOLD_PAR=-1 library is the sequential specification')
    alias = tab['sequential_alias']
    seen = set()
    n = 0
    for f in wrappers(db):
        if not f['params'] or db.T(f, f['params'][0]['t']).get('r') != 'manifold::ExecutionPolicy':
            continue
        name = T.short(f['name'])
        if name in tab['no_std_sibling']:
            continue
        pn = [p['n'] for p in f['params'][1:]
              if db.T(f, p['t']).get('r') != 'manifold::ExecutionContext::Impl']
        want = alias.get(name, name)
        ok = False
        why = 'no std:: algorithm call found'

        def subseq(a, b):
            it = iter(b)
            return all(x in it for x in a)

        def scan(fn, pnames, depth):
            """(ok, why): fn's body (or a details:: helper / same-named wrapper it forwards its parameters
            to, in order) calls std::<want> with those parameters in order"""
            last = 'no std:: algorithm call found'
            for b in fn['blocks']:
                for ev in b['ev']:
                    if ev.get('k') != 'call':
                        continue
                    argnames = []
                    for a in ev.get('args', []):
                        a = T.strip_copy(a)
                        argnames.append(a['n'] if a.get('k') == 'var' else None)
                    lead = [a for a in argnames if a is not None and a in pnames]
                    if ev.get('fn', '').startswith('std::') and T.short(ev['fn']) in tab['std_algorithms']:
                        got = T.short(ev['fn'])
                        if got == want and lead and subseq(lead, pnames) and lead[:2] == pnames[:2]:
                            return True, 'std::%s(%s)' % (got, ', '.join(lead))
                        last = 'std::%s(%s)' % (got, ', '.join(str(a) for a in argnames))
                    elif depth < 4 and ev.get('fk') in db.functions and lead and subseq(lead, pnames) and \
                            lead[:2] == pnames[:2]:
                        callee = db.functions[ev['fk']]
                        if callee['file'] == 'src/parallel.h' and callee.get('blocks') and \
                                (T.short(callee['name']) == name or 'details::' in callee['name'] or
                                 'details::' in (callee.get('cls') or '')):
                            # map the forwarded parameters onto the callee's parameter names
                            cp = [p['n'] for p in callee['params']]
                            m = {}
                            for i, a in enumerate(argnames):
                                if a in pnames and i < len(cp):
                                    m[a] = cp[i]
                            sub = [m[a] for a in pnames if a in m]
                            r, w = scan(callee, sub, depth + 1)
                            if r:
                                return True, 'via %s: %s' % (T.short(callee['name']), w)
                            last = 'via %s: %s' % (T.short(callee['name']), w)
            return False, last
        ok, why = scan(f, pn, 0)
        key = (name, len(pn), ok, why)
        if key in seen:
            continue
        seen.add(key)
        n += 1
        chk.obligation(ok, {'wrapper': '%s/%d' % (name, len(pn)), 'sequential branch': why, 'expected': 'std::' + want})
        if not ok:
            chk.violation('C13.3', T.basename(f['name']), '%s/%d sequential sibling' % (name, len(pn)),
                          'the non-parallel branch of %s does not call std::%s with its own parameters in order (%s)'
                          % (name, want, why), file=f['file'], line=f['line'], cfg=cfgname)
    chk.count('c13.3.wrappers', n)


IDENTITIES = [
    ('plus', ('0', '0.0', '{0}', 'operator""_uz(0)', 'vec{0}', '0.000000')),
    ('&&', ('True',)),
    ('min', ('infinity', 'max()')),
    ('max', ('-infinity', 'min()', 'lowest()')),
]


def identity_class(f, init, depth=0):
    """'zero' / 'true' / '+inf' / '-inf' / 'max' / 'lowest' / 'empty box' (or a composition) if the expression is such a
    constant, resolving const locals; None otherwise"""
    n = T.strip_copy(init)
    while n.get('k') in ('mtemp', 'bindtemp', 'paren') and 'e' in n:
        n = T.strip_copy(n['e'])
    k = n.get('k')
    if depth > 6:
        return None
    if k in ('int', 'flt'):
        return 'zero' if n['v'] in (0, 0.0) else ('+inf' if n['v'] in ('inf', '+inf') else
                                                  ('-inf' if n['v'] == '-inf' else None))
    if k == 'bool':
        return 'true' if n['v'] else 'false'
    if k == 'un' and n.get('op') == '-':
        c = identity_class(f, n['e'], depth + 1)
        return {'+inf': '-inf', '-inf': '+inf', 'zero': 'zero', 'max': 'lowest'}.get(c)
    if k == 'call':
        fn = n.get('fn', '')
        if 'numeric_limits' in fn:
            return {'infinity': '+inf', 'max': 'max', 'lowest': 'lowest', 'min': None}.get(T.short(fn))
        if T.short(fn) in ('make_pair', 'make_tuple') and n.get('args'):
            cs = [identity_class(f, a, depth + 1) for a in n['args']]
            return '/'.join(sorted(set(cs))) if all(cs) else None
        return None
    if k == 'var' and n.get('s') == 'l':
        defs = []
        for b in f['blocks']:
            for e in b['ev']:
                if e.get('k') == 'decl':
                    for v in e['vars']:
                        if v['n'] == n['n'] and v.get('init') is not None:
                            defs.append(v['init'])
                if e.get('k') == 'bin' and e.get('op', '').endswith('=') and e['op'] not in ('==', '!=', '<=', '>=') and \
                        T.strip(e['l']).get('k') == 'var' and T.strip(e['l'])['n'] == n['n']:
                    return None       # reassigned: not a constant
        if len(defs) == 1:
            return identity_class(f, defs[0], depth + 1)
        return None
    if k in ('ctor', 'ilist', 'cast'):
        args = n.get('args', []) if k != 'cast' else [n.get('e')]
        if not args:
            return 'empty box' if any(x in (n.get('cls') or '') for x in ('Box', 'Rect')) else 'zero'
        cs = [identity_class(f, a, depth + 1) for a in args if a is not None]
        if cs and all(cs):
            return '/'.join(sorted(set(cs)))
        return None
    return None


def rule5(chk, db, cfgname, tab):
    chk.rule('C13.5', 'every library call of manifold::reduce / transform_reduce passes an init that is an identity of '
             'its operator (0 for plus, true for &&, +inf/-inf or numeric max/min for min/max), which is what keeps '
             'the C13.1 defect of reduce() unobservable through the library')
    reviewed = {(r['function'], r['init']): r for r in tab['reduce_sites']}
    n = 0
    seen = set()
    for f in db.functions.values():
        if not f.get('blocks'):
            continue
        for b in f['blocks']:
            for ev in b['ev']:
                if ev.get('k') == 'call' and T.basename(ev.get('fn', '')) in ('manifold::reduce',
                                                                              'manifold::transform_reduce'):
                    init = T.arg_of(ev, 'init')
                    s = T.pstr(init) if init is not None else '?'
                    # the wrappers forwarding their own init parameter are not call sites
                    r0 = T.root_of(T.strip_copy(init)) if init is not None else None
                    if init is not None and any(x.get('k') == 'var' and x.get('s') == 'p' and x['n'] == 'init'
                                                for x in T.walk(init)):
                        continue
                    key = (T.basename(f['name'].split('::<lambda')[0]), s)
                    if key in seen:
                        continue
                    seen.add(key)
                    n += 1
                    r = reviewed.get(key)
                    ok = r is not None
                    if not ok:
                        # not a reviewed (function, text) pair: decide by the VALUE of the init - a constant of an
                        # identity class (0, true, +-infinity, numeric max/lowest, an empty Box/Rect, or a vec/pair
                        # built from those), with const locals resolved to their initialisers
                        cls = identity_class(f, init)
                        if cls:
                            ok = True
                            r = {'operator': 'identity-class constant: ' + cls}
                    chk.obligation(ok, {'function': key[0], 'init': s, 'identity of': r['operator'] if r else
                                        'UNREVIEWED'})
                    if not ok:
                        chk.violation('C13.5', f, 'reduce init %s' % s[:40],
                                      'a reduce/transform_reduce call passes init %s, which the table does not list '
                                      'as an identity of its operator: with the TBB backend the value is folded in '
                                      'once per task' % s, line=ev.get('ln'), cfg=cfgname)
    chk.count('c13.5.reduce_sites', n)


def _unsigned(t):
    c = (t.get('c') or t.get('s') or '')
    return 'unsigned' in c or c in ('bool', 'char8_t', 'char16_t', 'char32_t', 'size_t')


def rule6(chk, db, cfgname):
    chk.rule('C13.6', 'radix sort: every byte-digit extraction (x >> s) & 0xFF operates on an unsigned key, and for a '
             'signed element type the key conversion flips the sign bit (byte-wise order of the key = order of T)')
    n = 0
    for f in db.functions.values():
        if not f.get('blocks') or not f['name'].startswith('manifold::details::'):
            continue
        seen = set()
        nodes = []
        for b in f['blocks']:
            for ev in b['ev']:
                for x in T.walk(ev):
                    if isinstance(x, dict) and x.get('k') == 'bin' and x.get('op') == '&':
                        key = (x.get('ln'), T.pstr(x))
                        if key not in seen:
                            seen.add(key)
                            nodes.append(x)
        for e in nodes:
            if True:
                l, r = T.strip_copy(e['l']), T.strip_copy(e['r'])
                if not (r.get('k') == 'int' and r.get('v') == 255 and l.get('k') == 'bin' and l.get('op') == '>>'):
                    continue
                n += 1
                x = T.strip_copy(l['l'])
                t = db.T(f, x)
                ok = _unsigned(t)
                via = None
                if ok and x.get('k') == 'call' and x.get('fk') in db.functions:
                    # the key function: for a signed parameter it must xor the sign bit
                    kf = db.functions[x['fk']]
                    via = kf['name']
                    pt = db.T(kf, kf['params'][0]['t']) if kf.get('params') else {}
                    if not _unsigned(pt):
                        has_xor = any(isinstance(y, dict) and y.get('k') == 'bin' and y.get('op') == '^'
                                      for bb in kf.get('blocks', []) for ee in bb['ev'] for y in T.walk(ee))
                        ok = has_xor
                chk.obligation(ok, {'function': f['key'].split(' :: ')[0][:90], 'line': e.get('ln'),
                                    'digit operand': T.pstr(x)[:40], 'type': t.get('c') or t.get('s'), 'key fn': via})
                if not ok:
                    chk.violation('C13.6', f, 'signed radix digit %s' % T.pstr(x)[:30],
                                  'the radix sort extracts byte digits from a value of type %s without mapping it to '
                                  'an order-preserving unsigned key: negative values are placed after positive ones, '
                                  'unlike std::stable_sort' % (t.get('c') or t.get('s')), line=e.get('ln'), cfg=cfgname)
    chk.count('c13.6.digit_extractions', n)


def rule7(chk, db, cfgname):
    chk.rule('C13.7', 'unique: every element stored to the output inside the chunk loop is control-dependent on an '
             '(in)equality test between elements (the head of a chunk is compared with the last kept element)')
    n = 0
    for f in db.functions.values():
        if not f.get('blocks') or f['name'] != 'manifold::unique':
            continue
        g = C.Cfg(f)
        loop_blocks = g.in_loop()
        for b in f['blocks']:
            if b['id'] not in loop_blocks:
                continue
            for e in b['ev']:
                lhs = None
                if e.get('k') == 'bin' and e.get('op') == '=':
                    lhs = T.strip_copy(e['l'])
                elif e.get('k') == 'call' and e.get('op') == '=' and e.get('recv') is not None:
                    lhs = T.strip_copy(e['recv'])
                if lhs is None or not (lhs.get('op') == '*' and lhs.get('k') in ('un', 'call')):
                    continue
                if not any(isinstance(y, dict) and y.get('k') == 'var' and y.get('s') == 'p' for y in T.walk(lhs)):
                    continue      # only stores through the (output = input) iterator parameter
                n += 1
                ok = False
                for d, k in g.control_deps(b['id']):
                    if d not in loop_blocks:
                        continue
                    cond, _ = C.branch_cond(g.blocks[d])
                    if cond is None:
                        continue
                    for x in T.walk(cond):
                        if isinstance(x, dict) and x.get('op') in ('!=', '==') and x.get('k') in ('bin', 'call'):
                            ops = [x.get('l'), x.get('r')] if x['k'] == 'bin' else \
                                ([x.get('recv')] if x.get('recv') is not None else []) + x.get('args', [])
                            if any(isinstance(y, dict) and (y.get('k') == 'sub' or
                                                            (y.get('k') == 'un' and y.get('op') == '*') or
                                                            (y.get('k') == 'call' and y.get('op') in ('[]', '*')))
                                   for o in ops if o is not None for y in T.walk(o)):
                                ok = True
                chk.obligation(ok, {'function': f['key'].split(' :: ')[0][:60], 'line': e.get('ln'),
                                    'store': T.pstr(e)[:50], 'guarded by element comparison': ok})
                if not ok:
                    chk.violation('C13.7', f, 'unguarded store %s in chunk loop' % T.pstr(e)[:30],
                                  'an element is written to the output of unique in every iteration of the chunk loop '
                                  'without being compared with the previously kept element: a pair of equal elements '
                                  'straddling a chunk boundary survives, unlike std::unique', line=e.get('ln'),
                                  cfg=cfgname)
    chk.count('c13.7.loop_stores', n)


def rule8(chk, db, cfgname):
    chk.rule('C13.8', 'the range body of every functional tbb::parallel_reduce / parallel_scan folds the running value '
             'it is given: its second parameter is named and read (TBB feeds one body object consecutive chunks, so '
             'a body that ignores the running value forgets the earlier chunks)')
    n = 0
    for f in db.functions.values():
        if not f.get('blocks') or not f['file'].endswith('parallel.h'):
            continue
        for b in f['blocks']:
            for ev in b['ev']:
                if ev.get('k') == 'call' and ev.get('fn', '') in ('tbb::detail::d1::parallel_reduce',
                                                                 'tbb::detail::d1::parallel_scan',
                                                                 'tbb::parallel_reduce', 'tbb::parallel_scan') \
                        and len(ev.get('args', [])) >= 4:
                    body = T.strip_copy(ev['args'][2])
                    lam = None
                    for x in T.walk(body):
                        if isinstance(x, dict) and x.get('k') == 'lambda' and x.get('fk') in db.functions:
                            lam = db.functions[x['fk']]
                            break
                    if lam is None or len(lam.get('params', [])) < 2:
                        continue
                    n += 1
                    p = lam['params'][1]
                    used = bool(p.get('n')) and any(
                        isinstance(y, dict) and y.get('k') == 'var' and y.get('n') == p['n'] and y.get('s') == 'p'
                        for bb in lam['blocks'] for ee in (bb['ev'] + ([bb['term']['cond']] if bb.get('term') and
                                                                  'cond' in bb['term'] else []))
                        for y in T.walk(ee))
                    chk.obligation(used, {'wrapper': f['key'].split(' :: ')[0][:70], 'line': ev.get('ln'),
                                          'running-value parameter': p.get('n') or '(unnamed)', 'read': used})
                    if not used:
                        chk.violation('C13.8', f, 'range body ignores its running value',
                                      'the range body passed to %s never reads its second parameter: the result of '
                                      'the chunks a body object processed earlier is overwritten by the last chunk, '
                                      'so the primitive differs from its std:: specification for inputs whose '
                                      'deciding element is not in the last chunk' % T.short(ev['fn']),
                                      line=ev.get('ln'), cfg=cfgname)
    chk.count('c13.8.range_bodies', n)


def rule9(chk, db, cfgname):
    chk.rule('C13.9', 'SortedRange::join: the one inTmp flag describes the whole joined run, so every extension of '
             'the run (length += rhs.length) is dominated by the buffer-unification test inTmp != rhs.inTmp')
    n = 0
    for f in db.functions.values():
        if not f.get('blocks') or T.short(f['name']) != 'join' or 'SortedRange' not in f['name']:
            continue
        g = C.Cfg(f)
        dom = g.dominators()
        unify = set()
        for b in f['blocks']:
            cond, _ = C.branch_cond(b)
            if cond is None:
                continue
            c = T.strip_copy(cond)
            if c.get('k') == 'bin' and c.get('op') in ('!=', '=='):
                names = [T.strip_copy(c['l']), T.strip_copy(c['r'])]
                if all(x.get('k') == 'mem' and x.get('n') == 'inTmp' for x in names) and \
                        {T.strip(x['base']).get('k') for x in names} == {'this', 'var'}:
                    unify.add(b['id'])
        for b in f['blocks']:
            for ev in b['ev']:
                if ev.get('k') == 'bin' and ev.get('op') == '+=' and T.strip(ev['l']).get('k') == 'mem' and \
                        T.strip(ev['l']).get('n') == 'length':
                    n += 1
                    ok = any(u in dom.get(b['id'], ()) for u in unify)
                    chk.obligation(ok, {'function': f['key'].split(' :: ')[0][:70], 'line': ev.get('ln'),
                                        'extension dominated by inTmp unification': ok})
                    if not ok:
                        chk.violation('C13.9', f, 'run extended without buffer unification',
                                      'length += rhs.length can be reached without the inTmp != rhs.inTmp test: the '
                                      'two halves may sit in different buffers while one flag describes both, so '
                                      'part of the sorted output is read from the wrong buffer', line=ev.get('ln'),
                                      cfg=cfgname)
    chk.count('c13.9.run_extensions', n)


def rule10(chk, db, cfgname):
    chk.rule('C13.10', 'DisjointSets::unite links roots along a strict total order: the orientation swap is controlled '
             'by a condition that compares the ranks and, for equal ranks, the node ids (without the tie-break two '
             'threads can link a->b and b->a concurrently)')
    n = 0
    for f in db.functions.values():
        if not f.get('blocks') or f['name'] not in ('manifold::DisjointSets::unite', 'DisjointSets::unite'):
            continue
        g = C.Cfg(f)
        for b in f['blocks']:
            for ev in b['ev']:
                if ev.get('k') == 'call' and T.short(ev.get('fn', '')) == 'swap' and len(ev.get('args', [])) == 2:
                    a = [T.strip_copy(x) for x in ev['args']]
                    if not all(x.get('k') == 'var' for x in a):
                        continue
                    ids = {x['n'] for x in a}
                    # the swap of the node ids (not of the ranks): operands initialised from findImpl
                    inits = {}
                    for bb in f['blocks']:
                        for ee in bb['ev']:
                            if ee.get('k') == 'bin' and ee.get('op') == '=' and T.strip(ee['l']).get('k') == 'var':
                                inits.setdefault(T.strip(ee['l'])['n'], []).append(T.pstr(ee['r']))
                    if not all(any('findImpl' in r for r in inits.get(i, [])) for i in ids):
                        continue
                    n += 1
                    conds = []
                    for d, k in g.control_deps(b['id']):
                        cond, _ = C.branch_cond(g.blocks[d])
                        if cond is not None:
                            conds.append(cond)
                    seen_ids = set()
                    for cnd in conds:
                        for x in T.walk(cnd):
                            if isinstance(x, dict) and x.get('k') == 'bin' and x.get('op') in ('<', '>', '<=', '>='):
                                vs = {y['n'] for y in T.walk(x) if isinstance(y, dict) and y.get('k') == 'var'}
                                if ids <= vs:
                                    seen_ids |= ids
                    ok = seen_ids == ids
                    chk.obligation(ok, {'function': f['name'], 'line': ev.get('ln'), 'swap of': sorted(ids),
                                        'controlled by an id comparison': ok})
                    if not ok:
                        chk.violation('C13.10', f, 'union orientation without id tie-break',
                                      'the orientation of the link between two roots is decided by rank alone: for '
                                      'equal ranks unite(x,y) and unite(y,x) running concurrently link in opposite '
                                      'directions and both CASes succeed (a two-node cycle / lost union)',
                                      line=ev.get('ln'), cfg=cfgname)
    chk.count('c13.10.orientation_swaps', n)


def rule11(chk, db, cfgname):
    chk.rule('C13.11', 'DisjointSets::unite: the expected value of every linking CAS is assembled from the (rank, id) '
             'pair observed by find - it is never re-read from mData, which would make the CAS succeed on a node that '
             'has meanwhile stopped being a root (a concurrent union is then overwritten)')
    n = 0
    for f in db.functions.values():
        if not f.get('blocks') or f['name'] not in ('manifold::DisjointSets::unite', 'DisjointSets::unite'):
            continue
        for b in f['blocks']:
            for e in b['ev']:
                if e.get('k') == 'call' and T.short(e.get('fn', '')).startswith('compare_exchange') and e.get('args'):
                    exp = T.strip_copy(e['args'][0])
                    if exp.get('k') != 'var':
                        continue
                    n += 1
                    defs = []
                    for bb in f['blocks']:
                        for ee in bb['ev']:
                            if ee.get('k') == 'decl':
                                defs += [v['init'] for v in ee['vars'] if v['n'] == exp['n'] and v.get('init') is not None]
                            if ee.get('k') == 'bin' and ee.get('op') == '=' and T.strip(ee['l']).get('k') == 'var' and \
                                    T.strip(ee['l'])['n'] == exp['n']:
                                defs.append(ee['r'])
                    reread = [T.pstr(d)[:40] for d in defs if any(
                        isinstance(y, dict) and ((y.get('k') == 'mem' and y.get('n') == 'mData') or
                                                 (y.get('k') == 'call' and T.short(y.get('fn', '')) == 'load'))
                        for y in T.walk(d))]
                    ok = bool(defs) and not reread
                    chk.obligation(ok, {'function': f['name'], 'line': e.get('ln'), 'expected operand': exp['n'],
                                        'definitions': [T.pstr(d)[:40] for d in defs], 're-read from mData': reread})
                    if not ok:
                        chk.violation('C13.11', f, 'CAS expected value re-read from mData',
                                      'the expected operand %s of the CAS is loaded from mData (%s) instead of being '
                                      'built from the rank and id that find() returned: the CAS no longer checks that '
                                      'the node is still a root with that rank' % (exp['n'], reread), line=e.get('ln'),
                                      cfg=cfgname)
    chk.count('c13.11.cas_sites', n)


def rule12(chk, db, cfgname):
    chk.rule('C13.12', 'HashTableD::Insert counts an entry only after it has claimed an open slot: used_ is advanced by a '
             'fetch_add that is control-dependent on the CAS having found kOpen, and is never decremented (a transient '
             'over-count makes a concurrent inserter see Full() and drop its key)')
    n = 0
    for f in db.functions.values():
        if not f.get('blocks') or T.short(f['name']) != 'Insert' or 'HashTableD' not in f['name']:
            continue
        g = C.Cfg(f)
        for b in f['blocks']:
            for e in b['ev']:
                if e.get('k') == 'call' and e.get('recv') is not None and T.strip(e['recv']).get('k') == 'mem' and \
                        T.strip(e['recv']).get('n') == 'used_' and T.short(e.get('fn', '')) in ('fetch_add', 'fetch_sub',
                                                                                                 'store', 'operator++',
                                                                                                 'operator--'):
                    n += 1
                    m = T.short(e['fn'])
                    ok = m == 'fetch_add'
                    why = m
                    if ok:
                        seen, work, dep = set(), [b['id']], False
                        while work:
                            y = work.pop()
                            for d, k in g.control_deps(y):
                                if (d, k) in seen:
                                    continue
                                seen.add((d, k))
                                work.append(d)
                                cond, _ = C.branch_cond(g.blocks[d])
                                if cond is not None and k == 0 and 'kOpen' in T.pstr(cond) and '==' in T.pstr(cond):
                                    dep = True
                        ok = dep
                        why = 'fetch_add under found == kOpen' if dep else 'fetch_add not controlled by the CAS result'
                    chk.obligation(ok, {'function': f['key'].split(' :: ')[0][:70], 'line': e.get('ln'), 'used_': why})
                    if not ok:
                        chk.violation('C13.12', f, 'used_ %s' % why,
                                      'the entry counter is changed by %s: the count is not the number of claimed slots '
                                      'at every instant, so Full() can be observed true while a slot is still free' % why,
                                      line=e.get('ln'), cfg=cfgname)
    chk.count('c13.12.counter_updates', n)


def main(chk, tier):
    import db as D
    import c06
    configs = ['par', 'seq'] if tier == 'quick' else ['par', 'seq', 'par-debug']
    tab = load_table()
    for cfgname in configs:
        db = D.load(cfgname)
        chk.configs.append(cfgname)
        chk.units = len(db.units)
        chk.functions_analysed += len(db.functions)
        if cfgname.startswith('par'):
            rule1(chk, db, cfgname)
            rule2(chk, db, cfgname)
            c06.rule_r1c(chk, db, cfgname)
            c06.rule_r4(chk, db, cfgname)
            rule6(chk, db, cfgname)
            rule7(chk, db, cfgname)
            rule8(chk, db, cfgname)
            rule9(chk, db, cfgname)
        rule10(chk, db, cfgname)
        rule11(chk, db, cfgname)
        rule12(chk, db, cfgname)
        rule3(chk, db, cfgname, tab)
        rule5(chk, db, cfgname, tab)
    chk.floor('c13.1.functional_tbb_calls', 3)
    chk.floor('c13.2.protocol_members', 6)
    chk.floor('c13.3.wrappers', 16)
    chk.floor('c13.5.reduce_sites', 6)
    chk.floor('c13.6.digit_extractions', 4)
    chk.floor('c13.7.loop_stores', 1)
    chk.floor('c13.8.range_bodies', 6)
    chk.floor('c13.9.run_extensions', 2)
    chk.floor('c13.10.orientation_swaps', 1)
    chk.floor('c13.11.cas_sites', 2)
    chk.floor('c13.12.counter_updates', 1)
    return chk.finish(
        'Protocol-conformance lints over src/parallel.h in the TBB configuration (which the pinned build never '
        'compiles) and the sequential one: identity arguments of the functional TBB reduce/scan calls, split/join/'
        'assign members of the scan bodies, name-and-argument agreement of each wrapper\'s sequential branch with the '
        'std:: algorithm, atomic-only access and strong CAS in the lock-free containers, and identity inits at every '
        'library reduce call site. Each clause, when broken, makes a primitive differ from its sequential '
        'specification for some input or schedule regardless of the data; equality of mergeRec, the radix sort and '
        'the scan bodies with std:: over all sequences and split/join orders is not decided.',
        assumptions=['std:: algorithms are the sequential specification'])
