"""C13 — parallel primitives equal their sequential specification (protocol clauses).

C13.1 identity arguments: the value handed to TBB as the identity of a functional reduce/scan does not depend on
      the parameter the sequential branch passes to the std:: algorithm as `init`
C13.2 body protocol: split constructors restart from the identity, reverse_join applies the LEFT partial first,
      assign copies the partial
C13.3 sequential siblings: the non-TBB branch of each wrapper calls the std:: algorithm of the same name with the
      wrapper's parameters in order
C13.4 lock-free containers: atomic-only key-slot access and strong CAS (C06.R1c / C06.R4)
C13.5 identity at call sites: every library call of reduce/transform_reduce passes an identity of its operator
"""
import json
import os

import cfg as C
import tree as T
from db import AnalysisBroken, VERIF


def load_table():
    return json.load(open(os.path.join(VERIF, 'rules', 'tables', 'c13.json')))


def wrappers(db):
    return [f for f in db.functions.values()
            if f['file'] == 'src/parallel.h' and f.get('blocks') and f.get('kind') == 'function'
            and f['name'].startswith('manifold::') and not f['name'].startswith('manifold::details::')]


def rule1(chk, db, cfgname):
    chk.rule('C13.1', 'the identity given to tbb::parallel_reduce / tbb::parallel_scan (functional form) is not '
             'data-dependent on the wrapper parameter that the sequential branch passes to std:: as `init`: std '
             'applies init once, TBB applies its identity once per body it creates')
    n = 0
    for f in wrappers(db):
        fam = [f] + [g for k, g in db.functions.items() if k.startswith(f['key'] + '::<lambda@')]
        seq_init = set()
        for ff in fam:
            for b in ff['blocks']:
                for ev in b['ev']:
                    if ev.get('k') == 'call' and ev.get('fn', '').startswith('std::') and \
                            T.short(ev['fn']) in ('reduce', 'exclusive_scan', 'transform_reduce', 'accumulate'):
                        a = T.arg_of(ev, '__init')
                        if a is not None:
                            for x in T.walk(a):
                                if x.get('k') == 'var' and x.get('s') == 'p':
                                    seq_init.add(x['n'])
        for ff in fam:
            for b in ff['blocks']:
                for ev in b['ev']:
                    if ev.get('k') == 'call' and ev.get('fn', '') in ('tbb::detail::d1::parallel_reduce',
                                                                     'tbb::detail::d1::parallel_scan',
                                                                     'tbb::parallel_reduce', 'tbb::parallel_scan') \
                            and len(ev.get('args', [])) >= 3:
                        n += 1
                        ident = ev['args'][1]
                        dep = sorted({x['n'] for x in T.walk(ident) if x.get('k') == 'var' and x['n'] in seq_init})
                        ok = not dep
                        chk.obligation(ok, {'wrapper': f['name'], 'line': ev.get('ln'),
                                            'identity argument': T.pstr(ident)[:60], 'depends on init': dep})
                        if not ok:
                            chk.violation('C13.1', T.basename(f['name']), 'identity <- %s' % ','.join(dep),
                                          'the caller\'s init (%s) is handed to TBB as the reduction identity: it is '
                                          'folded in once per body TBB creates, so a non-identity init gives a '
                                          'schedule-dependent result' % ','.join(dep), file=f['file'],
                                          line=ev.get('ln'), cfg=cfgname)
    chk.count('c13.1.functional_tbb_calls', n)


def rule2(chk, db, cfgname):
    chk.rule('C13.2', 'scan/reduce body classes follow the TBB protocol: the split constructor initialises the partial '
             'from the identity (never from the other body\'s partial); reverse_join(a) computes op(a.partial, '
             'partial) — left operand first; assign copies the partial')
    n = 0
    bodies = {}
    for f in db.functions.values():
        if f['file'] == 'src/parallel.h' and f.get('cls') and 'details::' in f['cls'] and f.get('blocks'):
            bodies.setdefault(T.basename(f['cls']), []).append(f)
    for cls, fs in sorted(bodies.items()):
        for f in fs:
            nm = T.short(f['name'])
            if f.get('kind') == 'ctor' and len(f['params']) == 2 and 'split' in db.T(f, f['params'][1]['t']).get('s', ''):
                other = f['params'][0]['n']
                for b in f['blocks']:
                    for ev in b['ev']:
                        if ev.get('k') == 'init' and ev['n'] == 'sum':
                            n += 1
                            e = T.pstr(ev['e'])
                            ok = (other + '.sum') not in e
                            chk.obligation(ok, {'class': cls, 'split constructor': 'sum(%s)' % e})
                            if not ok:
                                chk.violation('C13.2', T.basename(f['name']), 'split copies partial',
                                              'the split constructor starts from the other body\'s partial result: '
                                              'the left prefix is counted twice', file=f['file'], line=ev.get('ln'),
                                              cfg=cfgname)
            if nm in ('reverse_join', 'join') and f['params']:
                a = f['params'][0]['n']
                for b in f['blocks']:
                    for ev in b['ev']:
                        asg = None
                        if ev.get('k') == 'bin' and ev.get('op') == '=':
                            asg = ev['r']
                        elif ev.get('k') == 'call' and ev.get('op') == '=' and ev.get('args'):
                            asg = ev['args'][0]
                        if asg is None:
                            continue
                        l = T.pstr(ev['l'] if ev.get('k') == 'bin' else ev['recv'])
                        if not l.endswith('sum'):
                            continue
                        n += 1
                        r = T.strip_copy(asg)
                        first = second = None
                        if r.get('k') == 'call' and len(r.get('args', [])) == 2:
                            first, second = T.pstr(r['args'][0]), T.pstr(r['args'][1])
                        elif r.get('k') == 'bin':
                            first, second = T.pstr(r['l']), T.pstr(r['r'])
                        want_first = (a + '.sum') if nm == 'reverse_join' else 'this->sum'
                        ok = first is not None and first.replace('this->', '') == want_first.replace('this->', '')
                        chk.obligation(ok, {'class': cls, nm: '%s op %s' % (first, second)})
                        if not ok:
                            chk.violation('C13.2', T.basename(f['name']), 'join operand order',
                                          '%s combines (%s, %s): the left partial must come first for a '
                                          'non-commutative operator' % (nm, first, second), file=f['file'],
                                          line=ev.get('ln'), cfg=cfgname)
            if nm == 'assign' and f['params']:
                bname = f['params'][0]['n']
                ok = any(ev.get('k') in ('bin', 'call') and (bname + '.sum') in T.pstr(ev.get('r') or (ev.get('args') or [{}])[0])
                         for b in f['blocks'] for ev in b['ev'] if ev.get('op') == '=')
                n += 1
                chk.obligation(ok, {'class': cls, 'assign copies partial': ok})
                if not ok:
                    chk.violation('C13.2', T.basename(f['name']), 'assign', 'assign() does not copy the partial',
                                  file=f['file'], line=f['line'], cfg=cfgname)
    chk.count('c13.2.protocol_members', n)


def rule3(chk, db, cfgname, tab):
    chk.rule('C13.3', 'the sequential branch of every policy-taking wrapper in parallel.h calls the std:: algorithm of '
             'the same name with the wrapper\'s parameters in the same order (stable_sort -> std::stable_sort, never '
             'std::sort), so the MANIFOLD_PAR=-1 library is the sequential specification')
    alias = tab['sequential_alias']
    seen = set()
    n = 0
    for f in wrappers(db):
        if not f['params'] or db.T(f, f['params'][0]['t']).get('r') != 'manifold::ExecutionPolicy':
            continue
        name = T.short(f['name'])
        if name in tab['no_std_sibling']:
            continue
        pn = [p['n'] for p in f['params'][1:]
              if db.T(f, p['t']).get('r') != 'manifold::ExecutionContext::Impl']
        want = alias.get(name, name)
        ok = False
        why = 'no std:: algorithm call found'

        def subseq(a, b):
            it = iter(b)
            return all(x in it for x in a)

        def scan(fn, pnames, depth):
            """(ok, why): fn's body (or a details:: helper / same-named wrapper it forwards its parameters
            to, in order) calls std::<want> with those parameters in order"""
            last = 'no std:: algorithm call found'
            for b in fn['blocks']:
                for ev in b['ev']:
                    if ev.get('k') != 'call':
                        continue
                    argnames = []
                    for a in ev.get('args', []):
                        a = T.strip_copy(a)
                        argnames.append(a['n'] if a.get('k') == 'var' else None)
                    lead = [a for a in argnames if a is not None and a in pnames]
                    if ev.get('fn', '').startswith('std::') and T.short(ev['fn']) in tab['std_algorithms']:
                        got = T.short(ev['fn'])
                        if got == want and lead and subseq(lead, pnames) and lead[:2] == pnames[:2]:
                            return True, 'std::%s(%s)' % (got, ', '.join(lead))
                        last = 'std::%s(%s)' % (got, ', '.join(str(a) for a in argnames))
                    elif depth < 4 and ev.get('fk') in db.functions and lead and subseq(lead, pnames) and \
                            lead[:2] == pnames[:2]:
                        callee = db.functions[ev['fk']]
                        if callee['file'] == 'src/parallel.h' and callee.get('blocks') and \
                                (T.short(callee['name']) == name or 'details::' in callee['name'] or
                                 'details::' in (callee.get('cls') or '')):
                            # map the forwarded parameters onto the callee's parameter names
                            cp = [p['n'] for p in callee['params']]
                            m = {}
                            for i, a in enumerate(argnames):
                                if a in pnames and i < len(cp):
                                    m[a] = cp[i]
                            sub = [m[a] for a in pnames if a in m]
                            r, w = scan(callee, sub, depth + 1)
                            if r:
                                return True, 'via %s: %s' % (T.short(callee['name']), w)
                            last = 'via %s: %s' % (T.short(callee['name']), w)
            return False, last
        ok, why = scan(f, pn, 0)
        key = (name, len(pn), ok, why)
        if key in seen:
            continue
        seen.add(key)
        n += 1
        chk.obligation(ok, {'wrapper': '%s/%d' % (name, len(pn)), 'sequential branch': why, 'expected': 'std::' + want})
        if not ok:
            chk.violation('C13.3', T.basename(f['name']), '%s/%d sequential sibling' % (name, len(pn)),
                          'the non-parallel branch of %s does not call std::%s with its own parameters in order (%s)'
                          % (name, want, why), file=f['file'], line=f['line'], cfg=cfgname)
    chk.count('c13.3.wrappers', n)


IDENTITIES = [
    ('plus', ('0', '0.0', '{0}', 'operator""_uz(0)', 'vec{0}', '0.000000')),
    ('&&', ('True',)),
    ('min', ('infinity', 'max()')),
    ('max', ('-infinity', 'min()', 'lowest()')),
]


def rule5(chk, db, cfgname, tab):
    chk.rule('C13.5', 'every library call of manifold::reduce / transform_reduce passes an init that is an identity of '
             'its operator (0 for plus, true for &&, +inf/-inf or numeric max/min for min/max), which is what keeps '
             'the C13.1 defect of reduce() unobservable through the library')
    reviewed = {(r['function'], r['init']): r for r in tab['reduce_sites']}
    n = 0
    seen = set()
    for f in db.functions.values():
        if not f.get('blocks'):
            continue
        for b in f['blocks']:
            for ev in b['ev']:
                if ev.get('k') == 'call' and T.basename(ev.get('fn', '')) in ('manifold::reduce',
                                                                              'manifold::transform_reduce'):
                    init = T.arg_of(ev, 'init')
                    s = T.pstr(init) if init is not None else '?'
                    # the wrappers forwarding their own init parameter are not call sites
                    r0 = T.root_of(T.strip_copy(init)) if init is not None else None
                    if init is not None and any(x.get('k') == 'var' and x.get('s') == 'p' and x['n'] == 'init'
                                                for x in T.walk(init)):
                        continue
                    key = (T.basename(f['name'].split('::<lambda')[0]), s)
                    if key in seen:
                        continue
                    seen.add(key)
                    n += 1
                    r = reviewed.get(key)
                    ok = r is not None
                    chk.obligation(ok, {'function': key[0], 'init': s, 'identity of': r['operator'] if r else
                                        'UNREVIEWED'})
                    if not ok:
                        chk.violation('C13.5', f, 'reduce init %s' % s[:40],
                                      'a reduce/transform_reduce call passes init %s, which the table does not list '
                                      'as an identity of its operator: with the TBB backend the value is folded in '
                                      'once per task' % s, line=ev.get('ln'), cfg=cfgname)
    chk.count('c13.5.reduce_sites', n)


def main(chk, tier):
    import db as D
    import c06
    configs = ['par', 'seq'] if tier == 'quick' else ['par', 'seq', 'par-debug']
    tab = load_table()
    for cfgname in configs:
        db = D.load(cfgname)
        chk.configs.append(cfgname)
        chk.units = len(db.units)
        chk.functions_analysed += len(db.functions)
        if cfgname.startswith('par'):
            rule1(chk, db, cfgname)
            rule2(chk, db, cfgname)
            c06.rule_r1c(chk, db, cfgname)
            c06.rule_r4(chk, db, cfgname)
        rule3(chk, db, cfgname, tab)
        rule5(chk, db, cfgname, tab)
    chk.floor('c13.1.functional_tbb_calls', 3)
    chk.floor('c13.2.protocol_members', 6)
    chk.floor('c13.3.wrappers', 16)
    chk.floor('c13.5.reduce_sites', 6)
    return chk.finish(
        'Protocol-conformance lints over src/parallel.h in the TBB configuration (which the pinned build never '
        'compiles) and the sequential one: identity arguments of the functional TBB reduce/scan calls, split/join/'
        'assign members of the scan bodies, name-and-argument agreement of each wrapper\'s sequential branch with the '
        'std:: algorithm, atomic-only access and strong CAS in the lock-free containers, and identity inits at every '
        'library reduce call site. Each clause, when broken, makes a primitive differ from its sequential '
        'specification for some input or schedule regardless of the data; equality of mergeRec, the radix sort and '
        'the scan bodies with std:: over all sequences and split/join orders is not decided.',
        assumptions=['std:: algorithms are the sequential specification'])
