"""C11 — CrossSections are regularized (who-may-construct clause).

Contours can only enter a CrossSection through `shared_paths(...)` (the single producer of a PathImpl).  For every
call of shared_paths the checker resolves where the Polygons argument comes from (through std::move, locals,
initializer lists and loops that append to a local) and requires each source to be in the reviewed producer table:
regularising producers (ApplyFillRule, Boolean2D, manifold::Offset, HullImpl), regularity-preserving ones applied
to paths that already are regular (TransformPolygons with its reflection reversal, DecomposeByContainment, a copy
of another CrossSection's paths_), and two literal generators (the CCW rectangle under !rect.IsEmpty(), Circle's
polygon under radius > 0).  Anything else is a route by which unregularised contours reach a CrossSection.
The checker also verifies the producers' own structural obligations: manifold::Offset returns its input only for
delta == 0 / empty input and otherwise through ApplyFillRule; TransformPolygons reverses the ring order exactly
when the determinant is negative; PathImpl is constructed nowhere else.
That the sweep computes the right point set, lattice exactness and operand-order independence are numeric and
not decided."""
import json
import os

import cfg as C
import tree as T
from db import AnalysisBroken, VERIF


def load_table():
    return json.load(open(os.path.join(VERIF, 'rules', 'tables', 'c11.json')))


def local_defs(fn, name):
    """every expression that (re)defines local `name` as a whole: decl initialiser and assignments"""
    out = []
    for b in fn['blocks']:
        for e in b['ev']:
            if e.get('k') == 'decl':
                for v in e['vars']:
                    if v['n'] == name:
                        out.append(('init', v.get('init'), e.get('ln')))
            elif e.get('k') == 'call' and e.get('op') == '=' and e.get('recv') is not None:
                r = T.strip_copy(e['recv'])
                if r.get('k') == 'var' and r['n'] == name:
                    out.append(('assign', e['args'][0], e.get('ln')))
            elif e.get('k') == 'bin' and e.get('op') == '=':
                r = T.strip_copy(e['l'])
                if r.get('k') == 'var' and r['n'] == name:
                    out.append(('assign', e['r'], e.get('ln')))
    return out


def appends(fn, name):
    """values appended/inserted into local container `name`"""
    out = []
    for b in fn['blocks']:
        for e in b['ev']:
            if e.get('k') == 'call' and e.get('recv') is not None and \
                    T.short(e.get('fn', '')) in ('push_back', 'emplace_back', 'insert'):
                r = T.strip_copy(e['recv'])
                if r.get('k') == 'var' and r['n'] == name:
                    out.append((T.short(e['fn']), e.get('args', []), e.get('ln')))
    return out


def unwrap(n):
    n = T.strip_copy(n)
    while True:
        if n.get('k') == 'call' and T.short(n.get('fn', '')) in ('move', 'forward') and n.get('args'):
            n = T.strip_copy(n['args'][0])
        elif n.get('k') in ('mtemp', 'bindtemp', 'paren') and 'e' in n:
            n = T.strip_copy(n['e'])
        elif n.get('k') == 'ctor' and len(n.get('args', [])) == 1 and (n.get('copy') or n.get('move')):
            n = T.strip_copy(n['args'][0])
        else:
            return n


def element_mutated(db, fn):
    """locals whose elements are written after they were produced: through a reference alias (range-for element,
    x[i], nested), a sub-object assignment, or a mutable iterator/pointer handed to a call"""
    alias = {}
    ranges = {}
    for b in fn['blocks']:
        for e in b['ev']:
            if e.get('k') != 'decl':
                continue
            for v in e['vars']:
                if v.get('init') is None:
                    continue
                i = unwrap(v['init'])
                if v['n'].startswith('__range'):
                    r = T.root_of(i)
                    if r is not None and r.get('k') == 'var':
                        ranges[v['n']] = r['n']
                    continue
                t = db.T(fn, v['t'])
                if not t.get('ref') or t.get('const') or (t.get('c') or '').startswith('const '):
                    continue
                if i.get('k') == 'call' and i.get('op') == '*' and i.get('recv') is not None:
                    r = unwrap(i['recv'])
                    if r.get('k') == 'var' and r['n'].startswith('__begin'):
                        alias[v['n']] = '__range' + r['n'][len('__begin'):]
                        continue
                r = T.root_of(i)
                if r is not None and r.get('k') == 'var':
                    alias[v['n']] = r['n']

    def targets(name):
        out = {name}
        seen = set()
        while name in alias or name in ranges:
            if name in seen:
                break
            seen.add(name)
            name = alias.get(name) or ranges.get(name)
            out.add(name)
        return out
    mutated = set()
    for b in fn['blocks']:
        for e in b['ev']:
            lhs = None
            if e.get('k') == 'bin' and e.get('op', '').endswith('=') and e['op'] not in ('==', '!=', '<=', '>='):
                lhs = e['l']
            elif e.get('k') == 'call' and e.get('op', '').endswith('=') and e['op'] not in ('==', '!=', '<=', '>=') \
                    and e.get('recv') is not None:
                lhs = e['recv']
            if lhs is not None:
                l0 = unwrap(lhs)
                r = T.root_of(l0)
                if r is not None and r.get('k') == 'var':
                    whole = l0.get('k') == 'var' and l0['n'] not in alias
                    if not whole:
                        mutated |= targets(r['n'])
            if e.get('k') == 'call' and e.get('args'):
                for a in e['args']:
                    a0 = unwrap(a)
                    if a0.get('k') == 'call' and T.short(a0.get('fn', '')) in ('data', 'begin', 'end') and \
                            not a0.get('mconst') and a0.get('recv') is not None and \
                            T.short(e.get('fn', '')) not in ('insert', 'vector', 'push_back'):
                        r = T.root_of(unwrap(a0['recv']))
                        if r is not None and r.get('k') == 'var':
                            mutated |= targets(r['n'])
    return mutated


class Resolver:
    def __init__(self, db, fn, tab):
        self.db, self.fn, self.tab = db, fn, tab
        self.prod = tab['producers']
        self.mutated = element_mutated(db, fn)

    def classify(self, node, depth=0):
        """list of (category, description) for the contours an expression denotes"""
        n = unwrap(node)
        k = n.get('k')
        if depth > 6:
            return [('UNRESOLVED', T.pstr(n)[:60])]
        if k == 'call':
            name = T.basename(n.get('fn', ''))
            short = T.short(name)
            for p, info in self.prod.items():
                if name == p or (info.get('match_short') and short == T.short(p)):
                    return [(info['category'], short)]
            # paths_ of a CrossSection: x.GetPaths()->paths_ handled under mem
            if n.get('op') == '[]' and n.get('recv') is not None:
                return self.classify(n['recv'], depth + 1)
            # *__beginN of a range-for: an element of the range expression
            if n.get('op') == '*' and n.get('recv') is not None:
                r = unwrap(n['recv'])
                if r.get('k') == 'var' and r['n'].startswith('__begin'):
                    rng = '__range' + r['n'][len('__begin'):]
                    for kind, expr, ln in local_defs(self.fn, rng):
                        if expr is not None:
                            return self.classify(expr, depth + 1)
            return [('UNREVIEWED', short + '(...)')]
        if k == 'mem' and n.get('n') == 'paths_':
            return [('regular-copy', 'paths_ of a CrossSection')]
        if k == 'var':
            if n.get('s') == 'p':
                return [('UNREVIEWED', 'parameter ' + n['n'])]
            lit = self.tab['literal_generators'].get(T.basename(self.fn['name']) + ':' + n['n'])
            if lit:
                return [('literal', '%s (%s)' % (n['n'], lit['reason'][:40]))]
            res = []
            defs = local_defs(self.fn, n['n'])
            for kind, expr, ln in defs:
                if expr is None:
                    continue
                e = unwrap(expr)
                if e.get('k') == 'ctor' and not e.get('args'):
                    continue            # default-constructed, filled by appends
                if e.get('k') == 'ilist' and not e.get('args'):
                    continue
                res += self.classify(expr, depth + 1)
            for m, args, ln in appends(self.fn, n['n']):
                if m == 'insert':
                    # insert(pos, first, last): ranges of another regular container
                    for a in args[1:]:
                        res += [c for c in self.classify_iter(a, depth + 1)]
                else:
                    res += self.classify(args[0], depth + 1)
            # range-for element variables: `for (auto& component : components)`
            if not res:
                res = self.range_source(n, depth)
            if n['n'] in self.mutated and res and all(c[0] in ('regularising', 'preserving', 'regular-copy')
                                                      for c in res):
                return [('UNREVIEWED', 'local %s, modified element-wise after %s' % (n['n'], res[0][1]))]
            return res or [('UNRESOLVED', n['n'])]
        if k in ('ilist', 'ctor'):
            args = n.get('args', [])
            if not args:
                return [('empty', '{}')]
            lit = self.tab['literal_generators'].get(T.basename(self.fn['name']) + ':<ilist>')
            if lit and all(self._is_coord_list(a) for a in args):
                return [('literal', lit['reason'][:50])]
            res = []
            for a in args:
                res += self.classify(a, depth + 1)
            return res
        return [('UNRESOLVED', T.pstr(n)[:60])]

    def _is_coord_list(self, a):
        a = unwrap(a)
        return a.get('k') in ('ilist', 'ctor') and all(
            unwrap(x).get('k') in ('ilist', 'ctor', 'mem', 'flt', 'int') for x in a.get('args', []))

    def classify_iter(self, a, depth):
        a = unwrap(a)
        if a.get('k') == 'call' and T.short(a.get('fn', '')) in ('begin', 'end', 'cbegin', 'cend') and \
                a.get('recv') is not None:
            r = unwrap(a['recv'])
            if r.get('k') == 'var' and r['n'] != '':
                return self.classify(r, depth + 1)
            return self.classify(a['recv'], depth + 1)
        return []

    def range_source(self, var, depth):
        """`for (auto& x : container)`: x denotes elements of container"""
        for b in self.fn['blocks']:
            for e in b['ev']:
                if e.get('k') == 'decl':
                    for v in e['vars']:
                        if v['n'] == var['n'] and v.get('init') is not None:
                            i = unwrap(v['init'])
                            if i.get('k') == 'call' and i.get('op') == '*' and i.get('recv') is not None:
                                # *__begin: find the range variable __range
                                for b2 in self.fn['blocks']:
                                    for e2 in b2['ev']:
                                        if e2.get('k') == 'decl':
                                            for v2 in e2['vars']:
                                                if v2['n'].startswith('__range') and v2.get('init') is not None:
                                                    return self.classify(v2['init'], depth + 1)
        return []


def rule_producers(chk, db, cfgname, tab, known):
    chk.rule('C11.1', 'every Polygons value handed to shared_paths() (the only producer of a PathImpl) comes from a '
             'regularising producer, a regularity-preserving producer applied to regular paths, or a reviewed literal '
             'generator')
    ok_cats = {'regularising', 'preserving', 'regular-copy', 'literal', 'empty'}
    n = 0
    for f in db.functions.values():
        if not f.get('blocks'):
            continue
        for b in f['blocks']:
            for e in b['ev']:
                if e.get('k') == 'call' and T.short(e.get('fn', '')) == 'shared_paths' and e.get('args'):
                    n += 1
                    r = Resolver(db, f, tab)
                    cls = r.classify(e['args'][0])
                    # de-duplicate
                    cls = sorted(set(cls))
                    bad = [c for c in cls if c[0] not in ok_cats]
                    chk.obligation(not bad, {'function': f['name'], 'line': e.get('ln'),
                                             'argument': T.pstr(e['args'][0])[:60],
                                             'sources': ['%s: %s' % c for c in cls]})
                    for cat, what in bad:
                        chk.violation('C11.1', f, 'shared_paths(%s) <- %s %s' % (T.pstr(e['args'][0])[:30], cat, what),
                                      'contours reach a CrossSection from %s (%s), which is not a regularising or '
                                      'regularity-preserving producer: self-intersecting, overlapping or clockwise '
                                      'rings can be stored' % (what, cat), line=e.get('ln'), cfg=cfgname)
    chk.count('c11.1.shared_paths_calls', n)
    # PathImpl constructed only inside shared_paths
    m = 0
    for f in db.functions.values():
        if not f.get('blocks'):
            continue
        for b in f['blocks']:
            for e in b['ev']:
                made = None
                if e.get('k') == 'ctor' and T.short(e.get('cls', '')) == 'PathImpl' and not e.get('copy') and \
                        not e.get('move'):
                    made = 'PathImpl(...)'
                if e.get('k') == 'call' and T.short(e.get('fn', '')) in ('make_shared', 'make_unique') and \
                        'PathImpl' in ''.join(db.T(f, e).get('targs') or []):
                    made = 'make_shared<PathImpl>'
                if made:
                    m += 1
                    ok = T.short(f['name'].split('::<lambda')[0]) in ('shared_paths', 'PathImpl') or \
                        'make_shared' in f['name'] or 'construct' in f['name'] or f['file'].startswith('/usr')
                    if not f['file'].startswith('src/') and not f['file'].startswith('include/manifold'):
                        continue
                    chk.obligation(ok, {'function': f['name'], 'line': e.get('ln'), 'constructs': made})
                    if not ok:
                        chk.violation('C11.1', f, '%s outside shared_paths' % made,
                                      'a PathImpl is built outside shared_paths(): its contours bypass the producer '
                                      'review', line=e.get('ln'), cfg=cfgname)
    chk.count('c11.1.pathimpl_constructions', m)


def rule_offset(chk, db, cfgname, rid='C11.2'):
    chk.rule(rid, 'manifold::Offset returns its input unchanged only under delta == 0 or an empty input, returns {} for '
             'non-finite arguments or no surviving ring, and every other return passes the offset rings through '
             'ApplyFillRule(…, WindRule::Add)')
    fs = [f for f in db.fn('manifold::Offset') if f.get('blocks') and len(f['params']) == 5]
    if len(fs) != 1:
        raise AnalysisBroken('%s: manifold::Offset not found uniquely' % rid)
    f = fs[0]
    g = C.Cfg(f)
    n = 0
    for b in f['blocks']:
        for e in b['ev']:
            if e.get('k') != 'return' or 'e' not in e:
                continue
            n += 1
            v = unwrap(e['e'])
            kind = None
            ok = False
            if v.get('k') in ('ilist', 'ctor') and not v.get('args'):
                kind, ok = 'empty', True
            elif v.get('k') == 'call' and T.short(v.get('fn', '')) == 'ApplyFillRule':
                rule = T.pstr(v['args'][2]) if len(v.get('args', [])) > 2 else ''
                kind, ok = 'ApplyFillRule(%s)' % rule, 'Add' in rule
            elif v.get('k') == 'var' and v.get('s') == 'p':
                kind = 'input returned'
                conds = []
                for d, k in g.control_deps(b['id']):
                    cond, _ = C.branch_cond(g.blocks[d])
                    if cond is not None:
                        conds.append((T.pstr(cond), k))
                ok = any(('delta == 0' in c or 'empty()' in c) and k == 0 for c, k in conds)
                kind += ' under ' + '; '.join(c for c, k in conds)[:80]
            else:
                kind = T.pstr(v)[:50]
            chk.obligation(ok, {'function': f['name'], 'line': e.get('ln'), 'return': kind})
            if not ok:
                chk.violation(rid, f, 'Offset returns %s' % kind,
                              'manifold::Offset hands back rings that did not pass the Add fill rule: an offset that '
                              'pinches itself is stored self-intersecting', line=e.get('ln'), cfg=cfgname)
    chk.count(rid.lower() + '.offset_returns', n)


def rule_transform(chk, db, cfgname):
    chk.rule('C11.3', 'TransformPolygons reverses the vertex order of every ring exactly when the determinant of the '
             'linear part is negative (a reflection would otherwise turn outlines clockwise)')
    fs = [f for f in db.functions.values() if T.short(f['name']) == 'TransformPolygons' and f.get('blocks')]
    if len(fs) != 1:
        raise AnalysisBroken('C11.3: TransformPolygons not found uniquely')
    f = fs[0]
    inits = {}
    for b in f['blocks']:
        for e in b['ev']:
            if e.get('k') == 'decl':
                for v in e['vars']:
                    if v.get('init') is not None:
                        inits[v['n']] = v['init']
    # find a conditional whose condition is (a local bound to) determinant(...) < 0 selecting a reversed index
    ok = False
    where = None
    for b in f['blocks']:
        for e in b['ev']:
            for x in T.walk(e):
                if isinstance(x, dict) and x.get('k') == 'cond':
                    c = unwrap(x.get('c') or {})
                    if c.get('k') == 'var' and c['n'] in inits:
                        c = unwrap(inits[c['n']])
                    if c.get('k') == 'bin' and c.get('op') == '<' and \
                            any(isinstance(y, dict) and y.get('k') == 'call' and
                                T.short(y.get('fn', '')) == 'determinant' for y in T.walk(c['l'])):
                        a, bb = T.pstr(x.get('a') or {}), T.pstr(x.get('b') or {})
                        if ('size' in a and '-' in a and 'i' in a) and bb.strip('()') == 'i':
                            ok = True
                            where = e.get('ln')
    chk.count('c11.3.transform_bodies')
    chk.obligation(ok, {'function': f['name'], 'reversal under determinant < 0': ok, 'line': where})
    if not ok:
        chk.violation('C11.3', f, 'no ring reversal under det<0',
                      'TransformPolygons does not reverse ring order for a reflecting transform: mirrored '
                      'CrossSections have clockwise outlines (winding -1)', cfg=cfgname)


def rule_eps(chk, db, cfgname):
    chk.rule('C11.5', 'the arrangement epsilon handed to Boolean2D / ApplyFillRule by CrossSection and Offset is the '
             'machine-scale InferEps(...) of the operands themselves - never the propagated tolerance_ (a drift '
             'budget that SetTolerance / Simplify / far translations inflate): the set result is exact for points '
             'farther than eps from the input edges')
    n = 0
    for f in db.functions.values():
        if not f.get('blocks') or f['file'] not in ('src/cross_section.cpp', 'src/boolean2_offset.cpp'):
            continue
        for b in f['blocks']:
            for e in b['ev']:
                if e.get('k') != 'call' or T.short(e.get('fn', '')) not in ('Boolean2D', 'ApplyFillRule'):
                    continue
                # the double-typed argument
                eps = [a for a in e.get('args', []) if db.T(f, T.strip_copy(a)).get('k') == 'f']
                if not eps:
                    continue
                n += 1
                a = unwrap(eps[0])
                src = None
                if a.get('k') == 'call' and T.short(a.get('fn', '')) == 'InferEps':
                    src = 'InferEps(...)'
                elif a.get('k') == 'var':
                    defs = [x for x in local_defs(f, a['n']) if x[1] is not None]
                    if defs and all(unwrap(x[1]).get('k') == 'call' and T.short(unwrap(x[1]).get('fn', '')) == 'InferEps'
                                    for x in defs):
                        src = '%s = InferEps(...)' % a['n']
                elif a.get('k') == 'mem' and a.get('n') == 'tolerance_' and T.strip(a['base']).get('k') == 'this':
                    # tolerance_ assigned from InferEps earlier in the same (constructor) body
                    for bb in f['blocks']:
                        for ee in bb['ev']:
                            if ee.get('k') == 'bin' and ee.get('op') == '=' and T.strip(ee['l']).get('k') == 'mem' and \
                                    T.strip(ee['l']).get('n') == 'tolerance_' and \
                                    unwrap(ee['r']).get('k') == 'call' and \
                                    T.short(unwrap(ee['r']).get('fn', '')) == 'InferEps' and \
                                    f.get('kind') == 'ctor':
                                src = 'tolerance_ = InferEps(...) in the constructor'
                ok = src is not None
                chk.obligation(ok, {'function': f['name'][:60], 'line': e.get('ln'), 'call': T.short(e['fn']),
                                    'eps argument': T.pstr(a)[:40], 'source': src or 'NOT InferEps'})
                if not ok:
                    chk.violation('C11.5', f, '%s eps <- %s' % (T.short(e['fn']), T.pstr(a)[:30]),
                                  'the arrangement epsilon of %s is %s, which is not the InferEps of the operands: with '
                                  'an inflated tolerance the sweep merges vertices and drops features up to that size, '
                                  'so lattice results are no longer pixel-exact' % (T.short(e['fn']), T.pstr(a)[:40]),
                                  line=e.get('ln'), cfg=cfgname)
    chk.count('c11.5.eps_arguments', n)


def main(chk, tier):
    import db as D
    configs = ['seq'] if tier == 'quick' else ['seq', 'par']
    tab = load_table()
    for cfgname in configs:
        db = D.load(cfgname)
        chk.configs.append(cfgname)
        chk.units = len(db.units)
        chk.functions_analysed += len(db.functions)
        rule_producers(chk, db, cfgname, tab, None)
        rule_offset(chk, db, cfgname)
        rule_transform(chk, db, cfgname)
        rule_eps(chk, db, cfgname)
        import scratch
        scratch.rule(chk, db, cfgname, 'C11.4', file_filter=('src/boolean2.cpp', 'src/boolean2_sweep.cpp', 'src/boolean2_offset.cpp', 'src/cross_section.cpp'))
    n = len(configs)
    chk.floor('c11.1.shared_paths_calls', 12 * n)
    chk.floor('c11.2.offset_returns', 3 * n)
    chk.floor('c11.3.transform_bodies', n)
    chk.floor('c11.5.eps_arguments', 5 * n)
    chk.floor('c11.4.scratch_buffers', 5 * n)
    return chk.finish(
        'Who-may-construct analysis of CrossSection: every route by which contours reach the stored PathImpl is '
        'resolved to its producing call and must be a regularising or regularity-preserving producer from the '
        'reviewed table; Offset\'s returns and TransformPolygons\' reflection handling are checked structurally. '
        'That ApplyFillRule / Boolean2D compute the right point set (the sweep, block rule, lattice exactness, '
        'operand-order independence) is numeric and not decided.',
        assumptions=['ApplyFillRule, Boolean2D and HullImpl are regularising (their correctness is the undecided '
                     'numeric part of C11)'])
