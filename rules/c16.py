"""C16 — Hull / Minkowski (structural clause): Minkowski difference is not commutative, so its operands are never
exchanged; operand reordering anywhere in the evaluator only under a commutativity test (rule shared with C03.4)."""
import c03


def main(chk, tier):
    import db as D
    configs = ['seq', 'par'] if tier == 'quick' else ['seq', 'par', 'seq-debug']
    tab = c03.load_table()
    for cfgname in configs:
        db = D.load(cfgname)
        chk.configs.append(cfgname)
        chk.units = len(db.units)
        chk.functions_analysed += len(db.functions)
        c03.rule_operand_order(chk, db, cfgname, tab, 'C16.1')
    chk.floor('c16.1.reorder_events', 3 * len(configs))
    return chk.finish(
        'Operand-order rule over the three places where Boolean/Minkowski operands are reordered (CsgNode::Boolean '
        'delegation, BatchUnion swap, Impl::Minkowski swap): each is control-dependent on a test, or a constant at '
        'every caller, that implies a commutative operation. Convexity, containment within epsilon and dilation reach '
        'are metric properties of numerically decided branches and are not decided.',
        assumptions=['control dependence is computed on the clang CFG; condition texts are access-path renderings'])
