"""C16 — Hull / Minkowski (structural clause): Minkowski difference is not commutative, so its operands are never
exchanged; operand reordering anywhere in the evaluator only under a commutativity test (rule shared with C03.4)."""
import c03
import cfg as C
from db import AnalysisBroken
import tree as T


def rule_batches(chk, db, cfgname):
    chk.rule('C16.2', 'batched sweeps (Minkowski): inside a loop that advances an offset, a for_each_n whose count is '
             'computed from that offset hands the offset (or a value derived from it) to the functor it runs - a '
             'functor that sees only the in-batch index processes the first batch again and again')
    n = 0
    for f in db.functions.values():
        if not f.get('blocks') or not f['file'].startswith('src/'):
            continue
        g = None
        for b in f['blocks']:
            for e in b['ev']:
                if not (e.get('k') == 'call' and T.short(e.get('fn', '')) in ('for_each_n', 'for_each') and
                        T.basename(e.get('fn', '')).startswith('manifold::')):
                    continue
                g = g or C.Cfg(f)
                loops = g.loops()
                body = None
                for h, blocks in loops.items():
                    if b['id'] in blocks and (body is None or len(blocks) < len(body)):
                        body = blocks
                if body is None:
                    continue
                # induction variables of the loop: locals updated by `v += c` inside the loop
                ind = set()
                for bb in f['blocks']:
                    if bb['id'] in body:
                        for ee in bb['ev']:
                            if ee.get('k') == 'bin' and ee.get('op') == '+=' and T.strip(ee['l']).get('k') == 'var':
                                ind.add(T.strip(ee['l'])['n'])
                if not ind:
                    continue
                # locals derived from them inside the loop
                derived = set(ind)
                changed = True
                while changed:
                    changed = False
                    for bb in f['blocks']:
                        if bb['id'] not in body:
                            continue
                        for ee in bb['ev']:
                            if ee.get('k') == 'decl':
                                for v in ee['vars']:
                                    if v.get('init') is not None and v['n'] not in derived and any(
                                            isinstance(y, dict) and y.get('k') == 'var' and y.get('n') in derived
                                            for y in T.walk(v['init'])):
                                        derived.add(v['n'])
                                        changed = True
                count_args = [a for a in e.get('args', [])[:-1]]
                dep = any(isinstance(y, dict) and y.get('k') == 'var' and y.get('n') in derived
                          for a in count_args for y in T.walk(a))
                lam = [x for x in T.walk(e['args'][-1]) if isinstance(x, dict) and x.get('k') == 'lambda']
                dep = dep or any(c['n'] in ind and not c.get('ref') for x in lam for c in x.get('caps', []))
                if not dep:
                    continue
                n += 1
                caps = {c['n'] for x in lam for c in x.get('caps', [])}
                # captured lambdas (by reference) that themselves capture the offset count too
                inner = set(caps)
                for x in lam:
                    for c in x.get('caps', []):
                        for bb in f['blocks']:
                            for ee in bb['ev']:
                                if ee.get('k') == 'decl':
                                    for v in ee['vars']:
                                        if v['n'] == c['n'] and v.get('init') is not None:
                                            for y in T.walk(v['init']):
                                                if isinstance(y, dict) and y.get('k') == 'lambda':
                                                    inner |= {cc['n'] for cc in y.get('caps', [])}
                count_names = set(T.strip_copy(a).get('n') for a in count_args if T.strip_copy(a).get('k') == 'var')
                scalars = set()
                for bb in f['blocks']:
                    for ee in bb['ev']:
                        if ee.get('k') == 'decl':
                            for v in ee['vars']:
                                if v['n'] in derived and db.T(f, v['t']).get('k') == 'i':
                                    scalars.add(v['n'])
                ok = bool(ind & inner) or bool((scalars & inner) - count_names)
                chk.obligation(ok, {'function': f['name'][:70], 'line': e.get('ln'), 'loop offset': sorted(ind),
                                    'functor captures': sorted(caps)[:8], 'sees the offset': ok})
                if not ok:
                    chk.violation('C16.2', f, 'batch functor ignores offset %s' % ','.join(sorted(ind)),
                                  'the loop advances %s and sizes each batch from it, but the functor run for the batch '
                                  'captures only %s: every batch sweeps the items of the first one, the rest of the '
                                  'operand is never processed' % (','.join(sorted(ind)), sorted(caps)[:6]),
                                  line=e.get('ln'), cfg=cfgname)
    chk.count('c16.2.batched_loops', n)


def rule_stale_before_swap(chk, db, cfgname):
    chk.rule('C16.3', 'operand reordering is complete: after std::swap(x, y) of two operand variables, no local that '
             'was computed from x or y BEFORE the swap is used any more, unless it is swapped with its counterpart '
             'alongside (swap(aConvex, bConvex)) or recomputed - a count or view taken from the operand that used to '
             'be called x describes the other operand afterwards')
    n = 0
    for f in db.functions.values():
        if not f.get('blocks') or not f['file'].startswith('src/'):
            continue
        swaps = []
        for b in f['blocks']:
            for e in b['ev']:
                if e.get('k') == 'call' and T.short(e.get('fn', '')) == 'swap' and len(e.get('args', [])) == 2 and \
                        e.get('recv') is None:
                    a0, a1 = T.strip(e['args'][0]), T.strip(e['args'][1])
                    if a0.get('k') == 'var' and a1.get('k') == 'var' and a0.get('d') and a1.get('d'):
                        swaps.append((b['id'], e.get('i', 0), a0, a1, e))
        if not swaps:
            continue
        g = C.Cfg(f)
        if not g.ok():
            continue
        dom = g.dominators()
        swapped = {x['d'] for s in swaps for x in (s[2], s[3])}
        # reachability
        succ = {i: [t for t in ss if t is not None and t >= 0] for i, ss in g.succ.items()}

        def reach(src):
            seen, work = set(), list(succ.get(src, []))
            while work:
                y = work.pop()
                if y in seen:
                    continue
                seen.add(y)
                work.extend(succ.get(y, []))
            return seen
        for (sb, si, x, y, se) in swaps:
            n += 1
            after = reach(sb)
            stale = []
            # locals the swap is control-dependent on decide the swap: they are about the state before it by
            # construction (`if (inclusion < 0) swap(startVert, endVert)`), and stay meaningful afterwards
            deciders = set()
            work, seen = [sb], set()
            while work:
                yb = work.pop()
                for d, k in g.control_deps(yb):
                    if (d, k) in seen:
                        continue
                    seen.add((d, k))
                    work.append(d)
                    cond, _ = C.branch_cond(g.blocks[d])
                    if cond is not None:
                        deciders |= {z['d'] for z in T.walk(cond)
                                     if isinstance(z, dict) and z.get('k') == 'var' and z.get('d')}
            for b in f['blocks']:
                for e in b['ev']:
                    if e.get('k') != 'decl':
                        continue
                    before = (b['id'] == sb and e.get('i', 0) < si) or (b['id'] != sb and b['id'] in dom.get(sb, ()))
                    if not before:
                        continue
                    for v in e['vars']:
                        if not isinstance(v.get('init'), dict) or v.get('d') in swapped or v.get('d') in deciders:
                            continue
                        mentioned = {z['d'] for z in T.walk(v['init'])
                                     if isinstance(z, dict) and z.get('k') == 'var' and z.get('d') in (x['d'], y['d'])}
                        # a value computed from BOTH operands may be symmetric in them (a->IsEmpty() || b->IsEmpty())
                        # and then means the same after the swap: only one-sided snapshots are judged
                        if len(mentioned) != 1:
                            continue
                        # used after the swap?
                        for b2 in f['blocks']:
                            for e2 in b2['ev']:
                                later = (b2['id'] == sb and e2.get('i', 0) > si) or (b2['id'] != sb and b2['id'] in after)
                                if later and e2 is not e and any(
                                        isinstance(z, dict) and z.get('k') == 'var' and z.get('d') == v['d']
                                        for z in T.walk(e2)):
                                    stale.append((v['n'], e.get('ln'), e2.get('ln')))
                                    break
                            else:
                                continue
                            break
            ok = not stale
            chk.obligation(ok, {'function': f['name'][:70], 'swap': T.pstr(se)[:50], 'line': se.get('ln'),
                                'locals computed from an operand before the swap and used after it': stale[:4]})
            if not ok:
                v, l0, l1 = stale[0]
                chk.violation('C16.3', f, '%s taken before %s' % (v, T.pstr(se)[:40]),
                              '%s is computed at line %s from an operand that %s (line %s) then exchanges, and is still '
                              'used at line %s: it describes the other operand there' % (v, l0, T.pstr(se)[:40],
                                                                                       se.get('ln'), l1),
                              line=l0, cfg=cfgname)
    chk.count('c16.3.swaps', n)


class _Undef(Exception):
    pass


def _ieval(x, env, inits, sym, depth=0):
    """integer value of an index-arithmetic tree: literals, + - * / %, min/max, never-reassigned locals through their
    initialisers; any other leaf (a call such as NumTri()) is a free symbol valued by sym(text)"""
    x = T.strip_copy(x)
    k = x.get('k')
    if k == 'int':
        v = x.get('v', x.get('val'))
        try:
            return int(str(v).rstrip('uUlLzZ'))
        except Exception:
            raise _Undef('literal %r' % (v,))
    if k == 'var':
        if x.get('d') in env:
            return env[x['d']]
        if x.get('d') in inits and depth < 6:
            return _ieval(inits[x['d']], env, inits, sym, depth + 1)
        return sym(T.pstr(x))
    if k == 'bin' and x.get('op') in ('+', '-', '*', '/', '%'):
        l = _ieval(x['l'], env, inits, sym, depth)
        r = _ieval(x['r'], env, inits, sym, depth)
        if x['op'] == '+':
            return l + r
        if x['op'] == '-':
            v = l - r
            return v + (1 << 64) if v < 0 else v      # size_t arithmetic wraps
        if x['op'] == '*':
            return l * r
        if r == 0:
            raise _Undef('division by zero')
        return l // r if x['op'] == '/' else l % r
    if k == 'call' and T.short(x.get('fn', '')) in ('min', 'max') and len(x.get('args', [])) == 2:
        l = _ieval(x['args'][0], env, inits, sym, depth)
        r = _ieval(x['args'][1], env, inits, sym, depth)
        return min(l, r) if T.short(x['fn']) == 'min' else max(l, r)
    if k == 'ctor' and len(x.get('args', [])) == 1:
        return _ieval(x['args'][0], env, inits, sym, depth)
    return sym(T.pstr(x))


def _beval(x, env, inits, sym):
    x = T.strip_copy(x)
    if x.get('k') == 'bin' and x.get('op') in ('<', '<=', '>', '>=', '!=', '=='):
        l, r = _ieval(x['l'], env, inits, sym), _ieval(x['r'], env, inits, sym)
        return {'<': l < r, '<=': l <= r, '>': l > r, '>=': l >= r, '!=': l != r, '==': l == r}[x['op']]
    if x.get('k') == 'bin' and x.get('op') in ('&&', '||'):
        l = _beval(x['l'], env, inits, sym)
        return (l and _beval(x['r'], env, inits, sym)) if x['op'] == '&&' else (l or _beval(x['r'], env, inits, sym))
    raise _Undef('condition %s' % T.pstr(x)[:40])


def rule_tiling(chk, db, cfgname):
    chk.rule('C16.4', 'a batched sweep tiles its operand: the index arithmetic of every offset-carrying batch loop '
             '(start, continuation test, step, per-batch count - extracted from the source and evaluated for every '
             'operand size 0..4100) visits offset + i for every i below the operand size and none beyond it; the '
             'operand size is the one free quantity of the loop (e.g. aImpl->NumTri())')
    n = 0
    for f in db.functions.values():
        if not f.get('blocks') or not f['file'].startswith('src/'):
            continue
        g = None
        for b in f['blocks']:
            for e in b['ev']:
                if not (e.get('k') == 'call' and T.short(e.get('fn', '')) == 'for_each_n' and
                        T.basename(e.get('fn', '')).startswith('manifold::')):
                    continue
                lam = [x for x in T.walk(e['args'][-1]) if isinstance(x, dict) and x.get('k') == 'lambda']
                byval = {c['n'] for x in lam for c in x.get('caps', []) if not c.get('ref')}
                if not byval:
                    continue
                g = g or C.Cfg(f)
                loops = g.loops()
                body = head = None
                for h, blocks in loops.items():
                    if b['id'] in blocks and (body is None or len(blocks) < len(body)):
                        body, head = blocks, h
                if body is None:
                    continue
                steps = []
                for bb in f['blocks']:
                    if bb['id'] in body:
                        for ee in bb['ev']:
                            if ee.get('k') == 'bin' and ee.get('op') == '+=' and T.strip(ee['l']).get('k') == 'var' \
                                    and T.strip(ee['l'])['n'] in byval:
                                steps.append(ee)
                if len(steps) != 1:
                    continue
                n += 1
                ov = T.strip(steps[0]['l'])
                inits, assigned = {}, set()
                for bb in f['blocks']:
                    for ee in bb['ev']:
                        if ee.get('k') == 'decl':
                            for v in ee['vars']:
                                if isinstance(v.get('init'), dict) and v.get('d'):
                                    inits[v['d']] = v['init']
                        for y in T.walk(ee):
                            if isinstance(y, dict) and y.get('k') == 'bin' and y.get('op', '').endswith('=') and \
                                    y.get('op') not in ('==', '!=', '<=', '>='):
                                t = T.strip(y['l'])
                                if t.get('k') == 'var' and t.get('d'):
                                    assigned.add(t['d'])
                start = inits.get(ov['d'])
                inits = {d: i for d, i in inits.items() if d not in assigned}
                cond, _ = C.branch_cond(g.blocks[head])
                count = e['args'][-2]
                if start is None or cond is None:
                    raise AnalysisBroken('C16.4: batch loop at %s:%s has no recognisable start/continuation test'
                                         % (f['file'], e.get('ln')))
                bad = None
                symbols = set()
                sizes = list(range(0, 4101))
                try:
                    for N in sizes:
                        def sym(text, N=N):
                            symbols.add(text)
                            return N
                        try:
                            env = {ov['d']: _ieval(start, {}, inits, sym)}
                            covered = set()
                            it = 0
                            while _beval(cond, env, inits, sym):
                                it += 1
                                if it > 5000:
                                    bad = (N, 'the loop does not terminate')
                                    break
                                k = _ieval(count, env, inits, sym)
                                if k > 10000:
                                    bad = (N, 'a batch of %d items at offset %d' % (k, env[ov['d']]))
                                    break
                                covered.update(range(env[ov['d']], env[ov['d']] + k))
                                env[ov['d']] += _ieval(steps[0]['r'], env, inits, sym)
                        except _Undef as u:
                            if 'division by zero' in str(u):
                                continue        # an operand size the arithmetic is undefined for: not judged
                            raise
                        if bad:
                            break
                        missing = [i for i in range(N) if i not in covered]
                        beyond = [i for i in covered if i >= N]
                        if missing:
                            bad = (N, 'items %s%s are never visited' % (missing[:3], '...' if len(missing) > 3 else ''))
                            break
                        if beyond:
                            bad = (N, 'item %d beyond the operand is visited' % min(beyond))
                            break
                except _Undef as u:
                    raise AnalysisBroken('C16.4: index arithmetic of the batch loop at %s:%s is outside the evaluated '
                                         'fragment (%s)' % (f['file'], e.get('ln'), u))
                if len(symbols) != 1:
                    raise AnalysisBroken('C16.4: the batch loop at %s:%s depends on %d free quantities %s - the operand '
                                         'size cannot be identified' % (f['file'], e.get('ln'), len(symbols),
                                                                        sorted(symbols)[:4]))
                ok = bad is None
                chk.obligation(ok, {'function': f['name'][:70], 'line': e.get('ln'), 'offset': ov['n'],
                                    'operand size': sorted(symbols)[0], 'start': T.pstr(start)[:20],
                                    'continues while': T.pstr(cond)[:50], 'step': T.pstr(steps[0]['r'])[:30],
                                    'per-batch count': T.pstr(count)[:30], 'sizes evaluated': '0..4100',
                                    'counter-example': bad})
                if not ok:
                    chk.violation('C16.4', f, 'batches do not tile %s' % sorted(symbols)[0],
                                  'with %s = %d %s (loop: %s = %s; while %s; += %s; %s items per batch): part of the '
                                  'operand is swept twice, never, or out of range' % (
                                      sorted(symbols)[0], bad[0], bad[1], ov['n'], T.pstr(start)[:20],
                                      T.pstr(cond)[:50], T.pstr(steps[0]['r'])[:30], T.pstr(count)[:30]),
                                  line=e.get('ln'), cfg=cfgname)
    chk.count('c16.4.batch_loops', n)


# closed orientable surfaces as (NumVert, NumEdge, NumTri): Euler characteristic V - E + T = 2 * shells - 2 * handles
EULER_SAMPLES = [
    ((4, 6, 4), 2, 'one tetrahedron'), ((8, 18, 12), 2, 'one cube'), ((6, 12, 8), 2, 'one octahedron'),
    ((16, 36, 24), 4, 'two disjoint cubes'), ((12, 24, 16), 4, 'two disjoint octahedra'),
    ((24, 54, 36), 6, 'three disjoint cubes'), ((9, 27, 18), 0, 'a torus'), ((16, 48, 32), 0, 'a torus'),
    ((10, 36, 24), -2, 'a double torus'), ((17, 45, 30), 2, 'a cube next to a torus'),
    ((25, 63, 42), 4, 'two cubes next to a torus'), ((26, 84, 56), -2, 'a double torus'),
]

assert all(v - e + t == chi for (v, e, t), chi, _ in EULER_SAMPLES)


def _zeval(x, env, inits, leaf, depth=0):
    """mathematical integer value (C++ int semantics for the small magnitudes sampled: truncating division)"""
    x = T.strip_copy(x)
    k = x.get('k')
    if k == 'int':
        return int(str(x.get('v', x.get('val'))).rstrip('uUlLzZ'))
    if k == 'var':
        if x.get('d') in inits and depth < 8:
            return _zeval(inits[x['d']], env, inits, leaf, depth + 1)
        raise _Undef('variable %s' % x.get('n'))
    if k == 'un' and x.get('op') == '-':
        return -_zeval(x['e'], env, inits, leaf, depth)
    if k == 'bin' and x.get('op') in ('+', '-', '*', '/', '%'):
        l = _zeval(x['l'], env, inits, leaf, depth)
        r = _zeval(x['r'], env, inits, leaf, depth)
        if x['op'] == '+':
            return l + r
        if x['op'] == '-':
            return l - r
        if x['op'] == '*':
            return l * r
        if r == 0:
            raise _Undef('division by zero')
        q = abs(l) // abs(r) * (1 if (l < 0) == (r < 0) else -1)
        return q if x['op'] == '/' else l - q * r
    if k == 'call':
        v = leaf(T.short(x.get('fn', '')))
        if v is not None:
            return v
    if k in ('ctor', 'cast') and len(x.get('args', [])) == 1:
        return _zeval(x['args'][0], env, inits, leaf, depth)
    raise _Undef('term %s' % T.pstr(x)[:40])


def _zbeval(x, env, inits, leaf):
    x = T.strip_copy(x)
    if x.get('k') == 'un' and x.get('op') == '!':
        return not _zbeval(x['e'], env, inits, leaf)
    if x.get('k') == 'bin' and x.get('op') in ('<', '<=', '>', '>=', '!=', '=='):
        l, r = _zeval(x['l'], env, inits, leaf), _zeval(x['r'], env, inits, leaf)
        return {'<': l < r, '<=': l <= r, '>': l > r, '>=': l >= r, '!=': l != r, '==': l == r}[x['op']]
    if x.get('k') == 'bin' and x.get('op') in ('&&', '||'):
        l = _zbeval(x['l'], env, inits, leaf)
        return (l and _zbeval(x['r'], env, inits, leaf)) if x['op'] == '&&' else (l or _zbeval(x['r'], env, inits, leaf))
    raise _Undef('condition %s' % T.pstr(x)[:40])


def rule_genus_gate(chk, db, cfgname):
    chk.rule('C16.5', 'the convexity classification that selects Minkowski\'s single-hull path is gated on the surface '
             'being ONE sphere: in Impl::IsConvex the test over NumVert/NumEdge/NumTri that returns false - its '
             'arithmetic taken from the source and evaluated on a table of closed surfaces (1-3 shells, 0-2 handles) - '
             'lets exactly the surfaces with V - E + T == 2 and no more through to the per-edge test; a one-sided gate '
             'classifies a union of disjoint convex pieces as convex and the sum fills the gap between them')
    fs = [f for f in db.functions.values() if f.get('blocks') and f['name'] == 'manifold::Manifold::Impl::IsConvex']
    if not fs:
        raise AnalysisBroken('C16.5: manifold::Manifold::Impl::IsConvex is gone')
    n = 0
    for f in fs:
        g = C.Cfg(f)
        inits, assigned = {}, set()
        for b in f['blocks']:
            for e in b['ev']:
                if e.get('k') == 'decl':
                    for v in e['vars']:
                        if isinstance(v.get('init'), dict) and v.get('d'):
                            inits[v['d']] = v['init']
                for y in T.walk(e):
                    if isinstance(y, dict) and y.get('k') == 'bin' and y.get('op', '').endswith('=') and \
                            y.get('op') not in ('==', '!=', '<=', '>='):
                        t = T.strip(y['l'])
                        if t.get('k') == 'var' and t.get('d'):
                            assigned.add(t['d'])
        inits = {d: i for d, i in inits.items() if d not in assigned}

        def returns_false(bid):
            return any(e.get('k') == 'return' and isinstance(e.get('e'), dict) and
                       T.strip_copy(e['e']).get('k') == 'bool' and T.strip_copy(e['e']).get('v') is False
                       for e in g.blocks[bid]['ev'])
        gates = []
        for b in f['blocks']:
            cond, _ = C.branch_cond(b)
            succ = b.get('succ') or []
            if cond is None or len(succ) != 2 or not any(returns_false(s) for s in succ):
                continue
            used = set()
            try:
                _zbeval(cond, {}, inits, lambda name: used.add(name) or 1 if name in ('NumVert', 'NumEdge', 'NumTri')
                        else None)
            except _Undef:
                continue
            if used:
                gates.append((b, cond, succ))
        if not gates:
            raise AnalysisBroken('C16.5: Impl::IsConvex has no recognisable test over NumVert/NumEdge/NumTri that '
                                 'returns false (the genus gate)')
        bad = None
        for (V, E, Tn), chi, what in EULER_SAMPLES:
            leaf = lambda name: {'NumVert': V, 'NumEdge': E, 'NumTri': Tn}.get(name)
            passes = True
            for b, cond, succ in gates:
                taken = succ[0] if _zbeval(cond, {}, inits, leaf) else succ[1]
                if returns_false(taken):
                    passes = False
            if passes != (chi == 2):
                bad = (what, (V, E, Tn), chi, passes)
                break
        n += 1
        ok = bad is None
        chk.obligation(ok, {'function': f['name'], 'gate': [T.pstr(c)[:60] for _, c, _ in gates],
                            'lines': [c.get('ln') for _, c, _ in gates],
                            'surfaces evaluated': len(EULER_SAMPLES), 'counter-example': bad})
        if not ok:
            chk.violation('C16.5', f, 'genus gate of IsConvex is not "exactly one sphere"',
                          '%s (V, E, T = %s, V - E + T = %d) %s the gate %s: %s' % (
                              bad[0], bad[1], bad[2], 'passes' if bad[3] else 'is rejected by',
                              ' / '.join(T.pstr(c)[:50] for _, c, _ in gates),
                              'a mesh of several convex shells is classified convex, Minkowski takes the single-hull '
                              'path and the result contains points farther from A than the reach of B' if bad[3] else
                              'a convex operand is sent down the per-triangle path'),
                          line=gates[0][1].get('ln'), cfg=cfgname)
    chk.count('c16.5.genus_gates', n)


def main(chk, tier):
    import db as D
    configs = ['seq', 'par'] if tier == 'quick' else ['seq', 'par', 'seq-debug']
    tab = c03.load_table()
    for cfgname in configs:
        db = D.load(cfgname)
        chk.configs.append(cfgname)
        chk.units = len(db.units)
        chk.functions_analysed += len(db.functions)
        c03.rule_operand_order(chk, db, cfgname, tab, 'C16.1')
        rule_batches(chk, db, cfgname)
        rule_stale_before_swap(chk, db, cfgname)
        rule_tiling(chk, db, cfgname)
        rule_genus_gate(chk, db, cfgname)
    chk.floor('c16.1.reorder_events', 3 * len(configs))
    chk.floor('c16.2.batched_loops', len(configs))
    chk.floor('c16.3.swaps', 2 * len(configs))
    chk.floor('c16.5.genus_gates', len(configs))
    if not any(v.get('rule') == 'C16.2' for v in chk.violations):
        # a functor that lost the offset (C16.2) is no offset-carrying loop any more: that is C16.2's report
        chk.floor('c16.4.batch_loops', len(configs))
    return chk.finish(
        'Operand-order rule over the three places where Boolean/Minkowski operands are reordered (CsgNode::Boolean '
        'delegation, BatchUnion swap, Impl::Minkowski swap): each is control-dependent on a test, or a constant at '
        'every caller, that implies a commutative operation. Convexity, containment within epsilon and dilation reach '
        'are metric properties of numerically decided branches and are not decided.',
        assumptions=['control dependence is computed on the clang CFG; condition texts are access-path renderings'])
