"""C16 — Hull / Minkowski (structural clause): Minkowski difference is not commutative, so its operands are never
exchanged; operand reordering anywhere in the evaluator only under a commutativity test (rule shared with C03.4)."""
import c03
import cfg as C
import tree as T


def rule_batches(chk, db, cfgname):
    chk.rule('C16.2', 'batched sweeps (Minkowski): inside a loop that advances an offset, a for_each_n whose count is '
             'computed from that offset hands the offset (or a value derived from it) to the functor it runs - a '
             'functor that sees only the in-batch index processes the first batch again and again')
    n = 0
    for f in db.functions.values():
        if not f.get('blocks') or not f['file'].startswith('src/'):
            continue
        g = None
        for b in f['blocks']:
            for e in b['ev']:
                if not (e.get('k') == 'call' and T.short(e.get('fn', '')) in ('for_each_n', 'for_each') and
                        T.basename(e.get('fn', '')).startswith('manifold::')):
                    continue
                g = g or C.Cfg(f)
                loops = g.loops()
                body = None
                for h, blocks in loops.items():
                    if b['id'] in blocks and (body is None or len(blocks) < len(body)):
                        body = blocks
                if body is None:
                    continue
                # induction variables of the loop: locals updated by `v += c` inside the loop
                ind = set()
                for bb in f['blocks']:
                    if bb['id'] in body:
                        for ee in bb['ev']:
                            if ee.get('k') == 'bin' and ee.get('op') == '+=' and T.strip(ee['l']).get('k') == 'var':
                                ind.add(T.strip(ee['l'])['n'])
                if not ind:
                    continue
                # locals derived from them inside the loop
                derived = set(ind)
                changed = True
                while changed:
                    changed = False
                    for bb in f['blocks']:
                        if bb['id'] not in body:
                            continue
                        for ee in bb['ev']:
                            if ee.get('k') == 'decl':
                                for v in ee['vars']:
                                    if v.get('init') is not None and v['n'] not in derived and any(
                                            isinstance(y, dict) and y.get('k') == 'var' and y.get('n') in derived
                                            for y in T.walk(v['init'])):
                                        derived.add(v['n'])
                                        changed = True
                count_args = [a for a in e.get('args', [])[:-1]]
                dep = any(isinstance(y, dict) and y.get('k') == 'var' and y.get('n') in derived
                          for a in count_args for y in T.walk(a))
                if not dep:
                    continue
                n += 1
                lam = [x for x in T.walk(e['args'][-1]) if isinstance(x, dict) and x.get('k') == 'lambda']
                caps = {c['n'] for x in lam for c in x.get('caps', [])}
                # captured lambdas (by reference) that themselves capture the offset count too
                inner = set(caps)
                for x in lam:
                    for c in x.get('caps', []):
                        for bb in f['blocks']:
                            for ee in bb['ev']:
                                if ee.get('k') == 'decl':
                                    for v in ee['vars']:
                                        if v['n'] == c['n'] and v.get('init') is not None:
                                            for y in T.walk(v['init']):
                                                if isinstance(y, dict) and y.get('k') == 'lambda':
                                                    inner |= {cc['n'] for cc in y.get('caps', [])}
                count_names = set(T.strip_copy(a).get('n') for a in count_args if T.strip_copy(a).get('k') == 'var')
                scalars = set()
                for bb in f['blocks']:
                    for ee in bb['ev']:
                        if ee.get('k') == 'decl':
                            for v in ee['vars']:
                                if v['n'] in derived and db.T(f, v['t']).get('k') == 'i':
                                    scalars.add(v['n'])
                ok = bool(ind & inner) or bool((scalars & inner) - count_names)
                chk.obligation(ok, {'function': f['name'][:70], 'line': e.get('ln'), 'loop offset': sorted(ind),
                                    'functor captures': sorted(caps)[:8], 'sees the offset': ok})
                if not ok:
                    chk.violation('C16.2', f, 'batch functor ignores offset %s' % ','.join(sorted(ind)),
                                  'the loop advances %s and sizes each batch from it, but the functor run for the batch '
                                  'captures only %s: every batch sweeps the items of the first one, the rest of the '
                                  'operand is never processed' % (','.join(sorted(ind)), sorted(caps)[:6]),
                                  line=e.get('ln'), cfg=cfgname)
    chk.count('c16.2.batched_loops', n)


def main(chk, tier):
    import db as D
    configs = ['seq', 'par'] if tier == 'quick' else ['seq', 'par', 'seq-debug']
    tab = c03.load_table()
    for cfgname in configs:
        db = D.load(cfgname)
        chk.configs.append(cfgname)
        chk.units = len(db.units)
        chk.functions_analysed += len(db.functions)
        c03.rule_operand_order(chk, db, cfgname, tab, 'C16.1')
        rule_batches(chk, db, cfgname)
    chk.floor('c16.1.reorder_events', 3 * len(configs))
    chk.floor('c16.2.batched_loops', len(configs))
    return chk.finish(
        'Operand-order rule over the three places where Boolean/Minkowski operands are reordered (CsgNode::Boolean '
        'delegation, BatchUnion swap, Impl::Minkowski swap): each is control-dependent on a test, or a constant at '
        'every caller, that implies a commutative operation. Convexity, containment within epsilon and dilation reach '
        'are metric properties of numerically decided branches and are not decided.',
        assumptions=['control dependence is computed on the clang CFG; condition texts are access-path renderings'])
