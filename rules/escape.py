"""Escape typestate for Manifold::Impl objects, shared by C01 (T, S, G), C18 (B, K) and C19 (S on the
Refine path).

Bits (may-set, per Impl object):
  T  may contain tombstones (halfedge -1 / NaN vertex)
  S  may contain stranded (unreferenced) vertices
  G  import gate pending (halfedges paired from caller data, IsManifold not yet tested)
  B  bounding box stale (positions written since the last CalculateBBox / SortGeometry)
  K  collider (BVH) stale (positions or halfedge structure changed since the last rebuild)
Rule: no bit is set when an Impl escapes (wrapped into a leaf node / Manifold, returned by value from a
reduction, or `this` at the normal exit of a public Impl constructor); SetEpsilon is only reached with B clear.
"""
import json
import os

import cfg as C
import tree as T
from db import AnalysisBroken, VERIF

IMPL = 'manifold::Manifold::Impl'
HE = 'manifold::Halfedges'
ALL = frozenset('TSGBKFR')
STRUCT_MUT = {'SetStart', 'SetEnd', 'SetPair', 'Set', 'MakeInvalid', 'push_back', 'resize', 'resize_nofill',
              'clear', 'FromData'}


def load_table():
    return json.load(open(os.path.join(VERIF, 'rules', 'tables', 'c01.json')))


def norm(p):
    p = p.replace('->', '.')
    while p.startswith('*'):
        p = p[1:]
    if p.startswith('(') and p.endswith(')'):
        p = p[1:-1]
    return p


def mentions_nan(e):
    for x in T.walk(e):
        if x.get('k') == 'call' and 'nan' in x.get('fn', '').lower():
            return True
        if x.get('k') in ('var',) and x.get('n', '').upper() in ('NAN',):
            return True
    return False


def pure_condition(cond):
    """the condition only reads: variables, members, literals, comparisons/logic, const method calls"""
    for x in T.walk(cond):
        if not isinstance(x, dict):
            continue
        k = x.get('k')
        if k in ('var', 'mem', 'int', 'flt', 'bool', 'this', 'cast', 'paren', 'str', 'nullptr', 'mtemp', 'bindtemp'):
            continue
        if k == 'bin' and x.get('op') in ('==', '!=', '<', '>', '<=', '>=', '&&', '||', '+', '-', '*', '/'):
            continue
        if k == 'un' and x.get('op') in ('!', '-'):
            continue
        if k == 'call' and x.get('mconst') and x.get('recv') is not None:
            continue
        return False
    return True


def cond_roots(cond):
    """local variables a condition reads, or None if it reads anything that is not a plain local"""
    roots = set()
    for x in T.walk(cond):
        if isinstance(x, dict) and x.get('k') == 'var':
            if x.get('s') != 'l':
                return None
            roots.add(x['n'])
        if isinstance(x, dict) and x.get('k') == 'this':
            return None
    return roots or None


def may_mutate(ev, names, typeof=None):
    """event may modify one of the named locals: assignment to it, non-const method call on it, its address or a
    mutable reference to it taken (address converted to pointer-to-const is a read)"""
    def rooted(n):
        r = T.root_of(n)
        return r is not None and r.get('k') == 'var' and r.get('n') in names

    def visit(n, parent):
        if not isinstance(n, dict):
            return False
        k = n.get('k')
        if k == 'bin' and n.get('op', '').endswith('=') and n['op'] not in ('==', '!=', '<=', '>=') and rooted(n['l']):
            return True
        if k == 'un' and n.get('op') in ('++', '--') and rooted(n['e']):
            return True
        if k == 'call' and n.get('recv') is not None and not n.get('mconst') and rooted(n['recv']):
            return True
        if k == 'un' and n.get('op') == '&' and rooted(n['e']):
            return True
        if k in ('call', 'ctor') and not n.get('fk'):
            for a in n.get('args', []):
                a0 = T.strip_copy(a)
                if a0.get('k') == 'var' and a0.get('n') in names:
                    return True        # unresolved callee may take it by mutable reference
        return False
    if ev.get('k') == 'un' and ev.get('op') == '&':
        return False     # a bare sub-expression element; its consumer event shows what the address is used for
    stack = [ev]
    while stack:
        n = stack.pop()
        if not isinstance(n, dict):
            continue
        if visit(n, None):
            return True
        skip = set()
        if n.get('k') in ('ilist', 'call', 'ctor') and typeof is not None:
            for i, a in enumerate(n.get('args', [])):
                a0 = T.strip(a)
                if a0.get('k') == 'un' and a0.get('op') == '&' and rooted(a0['e']) and typeof(n, i):
                    skip.add(id(a))       # address bound to a pointer-to-const destination: a read
        for c in T.children(n):
            if id(c) not in skip:
                stack.append(c)
    return False


class Escape:
    def __init__(self, db, tab, bits, caches=False):
        self.db = db
        self.tab = tab
        # mutable data members of Impl are caches of derived data writable through a shared const Impl: each gets a
        # dynamic staleness bit (a lower-case letter) generated by every geometry mutation and killed by a reset
        self.cache = {}
        if caches:
            cls = [c for c in db.classes.values() if c['name'] == IMPL]
            for c in cls[:1]:
                def derived(f):
                    # mutable members (caches) and bool members (assertions about the geometry, e.g. "is convex")
                    t = db.types[c['tu']][f['t']] if isinstance(f.get('t'), int) else {}
                    return f.get('mutable') or t.get('k') == 'b'
                for i, f in enumerate([f for f in c.get('fields', []) if derived(f) and not f.get('static')][:8]):
                    # (possibly-filled bit, stale bit)
                    self.cache[f['n']] = (chr(ord('0') + i), chr(ord('a') + i))
        self.pbits = frozenset(p for p, _ in self.cache.values())
        self.sbits = frozenset(q for _, q in self.cache.values())
        self.bits = frozenset(bits) | self.pbits | self.sbits
        self.prim_dyn = {}
        self.dyn_if = {}        # fn key -> stale bits generated when the cache may be filled on entry
        self.prim = tab['primitives']
        self.exempt_gen = {(e['function'], e['callee']): e for e in tab['exempt_generators']}
        self.summ = {}          # fn key -> (gen, kill, req)
        self.viol = []
        self.escapes = []       # (fn, line, obj, state, how)
        self.req_viol = []

    # ---- object keys ----------------------------------------------------------------
    def obj_of(self, node):
        """Impl object key of an expression that denotes an Impl (or pointer to one)"""
        n = T.strip_copy(node)
        while n.get('k') == 'call' and T.short(n.get('fn', '')) in ('move', 'get', 'operator*', 'operator->') and \
                (n.get('args') or n.get('recv') is not None):
            n = T.strip_copy(n['args'][0] if n.get('args') else n['recv'])
        if n.get('k') == 'un' and n.get('op') in ('*', '&'):
            return self.obj_of(n['e'])
        if T.root_of(n) is None:
            return None
        return norm(T.pstr(n))

    def impl_typed(self, fn, node):
        t = self.db.T(fn, node) if 't' in node else {}
        if t.get('r') == IMPL:
            return True
        if t.get('r') in ('std::shared_ptr', 'std::unique_ptr') and t.get('targs') and 'Impl' in t['targs'][0]:
            return True
        return False

    # ---- transfer ------------------------------------------------------------------------
    def apply_effect(self, st, obj, eff, fn, ln, what):
        cur = set(st.get(obj, frozenset()))
        for r in eff.get('require_not', []):
            if r in cur and r in self.bits:
                self.req_viol.append((fn, ln, obj, r, what))
        for b in eff.get('kill', []):
            cur.discard(b)
        for b, cond in eff.get('kill_if_not', {}).items():
            if cond not in cur:
                cur.discard(b)
        for b, cond in eff.get('gen_if', {}).items():
            if cond in cur:
                cur.add(b)
                cur.discard(cond)
        for b in eff.get('gen', []):
            cur.add(b)
        if self.cache and (set(eff.get('gen', [])) & set('BKT')) and not eff.get('_dyn'):
            for p, q in self.cache.values():
                if p in cur:
                    cur.add(q)       # geometry changed while the cache may hold a value: it is stale
        for q in eff.get('gen_if_filled', []):
            p = [pp for pp, qq in self.cache.values() if qq == q]
            if p and p[0] in cur:
                cur.add(q)
        st[obj] = frozenset(cur & self.bits)

    def _exempt(self, fn, callee):
        """reviewed exemption of a generator call site; an entry may be restricted to one overload by the type of the
        caller's first parameter (Impl(Shape) versus the MeshGL import constructors share a name)"""
        ex = self.exempt_gen.get((T.basename(fn['name'].split('::<lambda')[0]), callee))
        if ex and ex.get('first_param_type'):
            root = fn
            if '::<lambda' in fn['key']:
                root = self.db.functions.get(fn['key'].split('::<lambda')[0], fn)
            ps = root.get('params') or []
            t = self.db.T(root, ps[0]['t']) if ps else {}
            if ex['first_param_type'] not in (t.get('c') or t.get('s') or ''):
                return None
        return ex

    def effect_of_call(self, fn, ev):
        """(object key, effect dict, label) for a call event that acts on an Impl object"""
        out = []
        name = T.basename(ev.get('fn', ''))
        recv = ev.get('recv')
        # primitive / summarised Impl methods
        if ev.get('mcls') == IMPL and recv is not None:
            obj = self.obj_of(recv)
            if obj is None:
                return out
            if name in self.prim:
                eff = dict(self.prim[name])
                ex = self._exempt(fn, name)
                if ex:
                    eff['gen'] = [b for b in eff.get('gen', []) if b not in ex['bits']]
                # halfedges paired from caller-supplied triangles must pass the IsManifold gate
                if T.short(name) == 'CreateHalfedges' and any(
                        self.db.T(fn, p['t']).get('r') == 'manifold::MeshGLP' for p in fn['params']):
                    eff['gen'] = list(eff.get('gen', [])) + ['G']
                if name in self.prim_dyn:
                    dg, dk, dif = self.prim_dyn[name]
                    eff['gen'] = list(eff.get('gen', [])) + sorted(dg)
                    eff['kill'] = [b for b in eff.get('kill', []) if b not in self.pbits | self.sbits] + sorted(dk)
                    eff['gen_if_filled'] = sorted(dif)
                    eff['_dyn'] = True
                out.append((obj, eff, T.short(name)))
            elif ev.get('fk') in self.summ:
                g, k, r = self.summ[ev['fk']]
                ex = self._exempt(fn, name)
                if ex:
                    g = [b for b in g if b not in ex['bits']]
                eff = {'gen': sorted(g), 'kill': sorted(k), 'require_not': sorted(r)}
                if self.cache:
                    eff['gen_if_filled'] = sorted(self.dyn_if.get(ev['fk'], ()))
                    eff['_dyn'] = True
                out.append((obj, eff, T.short(name)))
        # halfedge_ = Halfedges(<structure built outside the Impl>): pairing not produced by CreateHalfedges nor
        # copied from another Impl must pass the IsManifold gate
        if ev.get('op') == '=' and recv is not None:
            r = T.strip(recv)
            if r.get('k') == 'mem' and r['n'] == 'halfedge_' and r.get('cls') == IMPL and ev.get('args'):
                a = T.strip_copy(ev['args'][0])
                foreign = False
                if a.get('k') == 'ctor' and T.short(a.get('cls', '')) == 'Halfedges' and a.get('args'):
                    foreign = not any(isinstance(y, dict) and y.get('k') == 'mem' and y.get('n') == 'halfedge_'
                                      for y in T.walk(a))
                if foreign:
                    obj = self.obj_of(r['base'])
                    if obj:
                        out.append((obj, {'gen': ['G', 'K']}, 'halfedge_ = Halfedges(external)'))
        # structural halfedge mutation -> K
        if ev.get('mcls') == HE and recv is not None and T.short(name) in STRUCT_MUT:
            r = T.strip(recv)
            if r.get('k') == 'mem' and r['n'] == 'halfedge_':
                obj = self.obj_of(r['base'])
                if obj:
                    out.append((obj, {'gen': ['K']}, 'Halfedges::' + T.short(name)))
        # cache reset: X.cache_.Reset() / clear() / store(...) / X.cache_.field.store(...)
        if recv is not None and self.cache and T.short(name) in ('Reset', 'reset', 'clear', 'store', 'operator='):
            r = T.strip(recv)
            while r.get('k') == 'mem' and r['n'] not in self.cache:
                r = T.strip(r['base'])
            if r.get('k') == 'mem' and r['n'] in self.cache and r.get('cls') == IMPL:
                obj = self.obj_of(r['base'])
                if obj:
                    out.append((obj, {'kill': list(self.cache[r['n']]), '_dyn': True}, 'reset of ' + r['n']))
        # collider refresh
        if recv is not None:
            r = T.strip(recv)
            if r.get('k') == 'mem' and r['n'] == 'collider_' and T.short(name) in ('UpdateBoxes', 'Transform'):
                obj = self.obj_of(r['base'])
                if obj:
                    out.append((obj, {'kill': ['K']}, 'collider_.' + T.short(name)))
        return out

    def position_writes(self, fn, ev):
        """[(obj, is_nan)] for writes to X.vertPos_ in this event"""
        out = []
        k = ev.get('k')

        def vp(node):
            n = T.strip(node)
            # element or whole
            while n.get('k') == 'call' and n.get('op') == '[]' and n.get('recv') is not None:
                n = T.strip(n['recv'])
            while n.get('k') == 'sub':
                n = T.strip(n['base'])
            if n.get('k') == 'mem' and n['n'] == 'vertPos_' and n.get('cls') == IMPL:
                return self.obj_of(n['base'])
            return None
        if k == 'call' and ev.get('op') in ('=', '+=', '-=', '*=', '/=') and ev.get('recv') is not None:
            o = vp(ev['recv'])
            if o:
                out.append((o, any(mentions_nan(a) for a in ev.get('args', []))))
            # std::tie(a, x.vertPos_) = ...
            r = T.strip(ev['recv'])
            if r.get('k') == 'call' and T.short(r.get('fn', '')) == 'tie':
                for a in r.get('args', []):
                    o = vp(a)
                    if o:
                        out.append((o, False))
        elif k == 'bin' and ev.get('op') in ('=', '+=', '-=', '*=', '/='):
            o = vp(ev['l'])
            if o:
                out.append((o, mentions_nan(ev['r'])))
        elif k in ('call', 'ctor', 'ilist', 'cast'):
            # mutable view / begin() of vertPos_ handed to a callee, functor or user callback
            args = list(ev.get('args', []))
            for x in T.walk(ev):
                if x.get('k') == 'ilist':
                    args += x.get('args', [])
            for a in args:
                n = T.strip_copy(a)
                handed = None
                if n.get('k') == 'call' and T.short(n.get('fn', '')) in ('view', 'begin', 'data') and \
                        n.get('recv') is not None and not n.get('mconst'):
                    handed = vp(n['recv'])
                    # begin() passed in a read position of a reduction is not a write
                    if handed and T.short(ev.get('fn', '')) in self.tab['read_only_algorithms']:
                        handed = None
                    # iterator arguments: inputs come first, the output range last
                    if handed and T.short(n.get('fn', '')) in ('begin', 'data'):
                        its = [x for x in ev.get('args', [])
                               if T.strip_copy(x).get('k') == 'call' and
                               T.short(T.strip_copy(x).get('fn', '')) in ('begin', 'end', 'cbegin', 'cend', 'data')
                               or (T.strip_copy(x).get('k') == 'bin' and T.strip_copy(x).get('op') == '+')]
                        if its and a is not its[-1] and not (
                                T.strip_copy(its[-1]).get('k') == 'bin' and
                                any(y is n for y in T.walk(T.strip_copy(its[-1])))):
                            handed = None
                elif n.get('k') == 'mem' and n['n'] == 'vertPos_' and n.get('cls') == IMPL and \
                        ev.get('k') in ('ilist',) or (n.get('k') == 'mem' and n.get('n') == 'vertPos_' and
                                                      self._nonconst_param(fn, ev, a)):
                    handed = self.obj_of(n['base']) if n.get('k') == 'mem' else None
                if handed:
                    out.append((handed, False, True))
            if k == 'call' and ev.get('recv') is not None and T.short(ev.get('fn', '')) in \
                    ('resize', 'resize_nofill', 'push_back', 'swap'):
                o = vp(ev['recv'])
                if o and not self.tab.get('resize_is_position_write', False):
                    pass
        return out

    def _dest_const_ptr(self, fn, parent, i):
        """argument i of an init-list / call / constructor initialises a pointer-to-const"""
        t = None
        if parent.get('k') == 'ilist':
            rec = self.db.T(fn, parent).get('r')
            cls = [c for c in self.db.classes.values() if c['name'] == rec]
            if cls and i < len(cls[0].get('fields', [])):
                try:
                    t = self.db.types[cls[0]['tu']][cls[0]['fields'][i]['t']]
                except Exception:
                    t = None
        elif parent.get('fk') in self.db.functions:
            callee = self.db.functions[parent['fk']]
            if i < len(callee['params']):
                t = self.db.T(callee, callee['params'][i]['t'])
        if not t:
            return False
        c = t.get('c') or t.get('s') or ''
        return c.startswith('const ') and c.rstrip().endswith('*')

    def _nonconst_param(self, fn, ev, arg):
        """arg is bound to a non-const reference / mutable VecView parameter of a repo callee"""
        fk = ev.get('fk')
        callee = self.db.functions.get(fk) if fk else None
        if not callee:
            return False
        args = ev.get('args', [])
        for i, a in enumerate(args):
            if a is arg and i < len(callee['params']):
                t = self.db.T(callee, callee['params'][i]['t'])
                s = t.get('c', t.get('s', ''))
                if t.get('ref') and not t.get('const') and 'const' not in s.split('&')[0][-8:]:
                    return True
                if 'VecView<linalg::vec<double, 3>>' in s and 'VecView<const' not in s:
                    return True
        return False

    def analyse(self, fn, init_this):
        g = C.Cfg(fn)
        if not g.ok():
            return None
        db = self.db
        esc = []

        def transfer(block, state):
            st = dict(state)
            for ev in block['ev']:
                k = ev.get('k')
                ln = ev.get('ln')
                # fresh objects
                if k == 'decl':
                    for v in ev['vars']:
                        t = db.T(fn, v['t'])
                        if t.get('ref'):
                            continue
                        if t.get('r') == IMPL and not t.get('ptr'):
                            init = T.strip(v['init']) if v.get('init') is not None else None
                            if init is not None and init.get('k') == 'ctor' and (init.get('copy') or init.get('move')):
                                src = self.obj_of(init['args'][0])
                                st[v['n']] = (st.get(src, frozenset()) if src else frozenset()) | self.pbits
                            elif init is not None and init.get('k') == 'call':
                                st[v['n']] = frozenset()     # value returned by a checked reduction
                            else:
                                st[v['n']] = frozenset()
                        elif t.get('r') in ('std::shared_ptr', 'std::unique_ptr') and v.get('init') is not None:
                            n0 = T.strip_copy(v['init'])
                            if n0.get('k') == 'call' and T.short(n0.get('fn', '')) in ('make_shared', 'make_unique') \
                                    and 'Impl' in ''.join(db.T(fn, n0).get('targs') or []) and \
                                    'CsgLeafNode' not in ''.join(db.T(fn, n0).get('targs') or []):
                                a = n0.get('args', [])
                                src = self.obj_of(a[0]) if len(a) == 1 else None
                                st[v['n']] = (st.get(src, frozenset()) if src in st else frozenset()) | \
                                    (self.pbits if len(a) == 1 else frozenset())
                if k in ('call', 'ctor', 'ilist', 'cast', 'bin'):
                    for pw in self.position_writes(fn, ev):
                        obj, isnan = pw[0], pw[1]
                        whole = len(pw) > 2 and pw[2]
                        if obj in st or obj == 'this':
                            gen = ['T'] if isnan else ['B', 'K', 'F']
                            if T.basename(fn['name'].split('::<lambda')[0]) in self.tab.get('finite_preserving_writers', {}):
                                gen = [b for b in gen if b != 'F']
                            eff = {'gen': gen}
                            if whole and not isnan:
                                # every position is rewritten: NaN marks that flagged stranded verts are wiped
                                eff['gen_if'] = {'S': 'R'}
                            self.apply_effect(st, obj, eff, fn, ln, 'vertPos_ write')
                if k == 'bin' and ev.get('op') == '=' and self.cache:
                    l = T.strip(ev['l'])
                    if l.get('k') == 'mem' and l.get('n') in self.cache and l.get('cls') == IMPL:
                        o = self.obj_of(l['base'])
                        if o and (o in st or o == 'this'):
                            self.apply_effect(st, o, {'kill': list(self.cache[l['n']]), '_dyn': True}, fn, ln,
                                              'assignment to ' + l['n'])
                if k == 'call':
                    for obj, eff, what in self.effect_of_call(fn, ev):
                        if obj in st or obj == 'this':
                            self.apply_effect(st, obj, eff, fn, ln, what)
                    # lambdas passed to a call: replay their summary on this
                    for a in ev.get('args', []):
                        a = T.strip(a)
                        if a.get('k') == 'lambda' and a['fk'] in self.summ:
                            gg, kk, rr = self.summ[a['fk']]
                            self.apply_effect(st, 'this', {'gen': sorted(gg), 'require_not': sorted(rr)}, fn, ln,
                                              'lambda body')
                    fk = ev.get('fk')
                    if fk in self.summ and db.functions.get(fk, {}).get('kind') == 'lambda':
                        gg, kk, rr = self.summ[fk]
                        self.apply_effect(st, 'this', {'gen': sorted(gg)}, fn, ln, 'lambda call')
                # escapes
                for obj, how in self.escape_points(fn, ev):
                    if obj in st:
                        esc.append((ln, obj, st.get(obj, frozenset()), how))
                if k == 'return' and 'e' in ev and db.T(fn, fn['ret']).get('r') == IMPL and \
                        not db.T(fn, fn['ret']).get('ptr'):
                    o = self.obj_of(ev['e'])
                    if o in st and o != 'this':
                        esc.append((ln, o, st.get(o, frozenset()), 'returned by value'))
            return st

        infeasible = [(e['condition'], e['taken']) for e in self.tab.get('infeasible_edges', [])
                      if e['function'] == fn['name']]

        def edge(block, k, succ, st):
            cond, _ = C.branch_cond(block)
            if cond is None or len(block['succ']) != 2:
                return st
            # correlated branches: under the current assumption this condition has a fixed value
            if T.pstr(cond) in assume and (k == 0) != assume[T.pstr(cond)]:
                return None
            for ctext, taken in infeasible:
                if T.pstr(cond).strip('()') == ctext and (k == 0) == taken:
                    return None
            inner, neg = C.split_negation(cond)
            if inner.get('k') == 'call' and T.short(inner.get('fn', '')) == 'IsEmpty' and \
                    inner.get('recv') is not None and inner.get('mcls') == IMPL:
                obj = self.obj_of(inner['recv'])
                true_edge = (k == 0) != neg
                if true_edge and obj in st:
                    st = dict(st)
                    st[obj] = st[obj] - {'T', 'S', 'B', 'K', 'F'}     # an empty Impl has nothing stale
                return st
            if inner.get('k') == 'call' and T.short(inner.get('fn', '')) == 'IsFinite' and \
                    inner.get('recv') is not None and inner.get('mcls') == IMPL:
                obj = self.obj_of(inner['recv'])
                true_edge = (k == 0) != neg
                if true_edge and obj in st:
                    st = dict(st)
                    st[obj] = st[obj] - {'F'}     # every coordinate was tested finite
                return st
            if inner.get('k') == 'call' and T.short(inner.get('fn', '')) == 'IsManifold' and inner.get('recv') is not None:
                obj = self.obj_of(inner['recv'])
                true_edge = (k == 0) != neg
                if true_edge and obj in st:
                    st = dict(st)
                    st[obj] = st[obj] - {'G'}
            return st

        def join(a, b):
            out = dict(a)
            for k2, v in b.items():
                out[k2] = out.get(k2, frozenset()) | v
            return out
        # correlated branches: a pure condition over locals that nothing in the function modifies, tested at two or
        # more branches, decides the same way each time -> analyse once per valuation and merge
        texts = {}
        for b in fn['blocks']:
            cond, _ = C.branch_cond(b)
            if cond is not None and len(b['succ']) == 2:
                roots = cond_roots(cond)
                if roots and pure_condition(cond):
                    texts.setdefault(T.pstr(cond), [set(), 0])
                    texts[T.pstr(cond)][0] |= roots
                    texts[T.pstr(cond)][1] += 1
        corr = []
        for text, (roots, cnt) in sorted(texts.items()):
            if cnt >= 2 and not any(may_mutate(ev, roots, lambda n, i: self._dest_const_ptr(fn, n, i))
                                    for b in fn['blocks'] for ev in b['ev']):
                corr.append(text)
        corr = corr[:3]
        exit_this = frozenset()
        seen_esc = set()
        all_esc = []
        reached = False
        for mask in range(1 << len(corr)):
            assume = {t: bool(mask >> i & 1) for i, t in enumerate(corr)}
            del esc[:]
            IN, OUT = C.forward(g, {'this': frozenset(init_this)}, transfer, join, edge)
            if g.exit in IN:
                reached = True
                exit_this |= IN[g.exit].get('this', frozenset())
            for x in esc:
                if x not in seen_esc:
                    seen_esc.add(x)
                    all_esc.append(x)
        return exit_this, all_esc

    def escape_points(self, fn, ev):
        out = []
        k = ev.get('k')
        if k == 'ctor' and T.basename(ev.get('cls', '')) in ('manifold::CsgLeafNode', 'manifold::Manifold') and \
                ev.get('args') and not ev.get('copy') and not ev.get('move'):
            a = ev['args'][0]
            o = self.obj_of(a)
            if o and self.impl_typed(fn, T.strip_copy(a)):
                out.append((o, 'wrapped into ' + T.short(ev['cls'])))
        if k == 'call':
            nm = T.short(ev.get('fn', ''))
            if nm in ('make_shared', 'make_unique') and 'CsgLeafNode' in ''.join(self.db.T(fn, ev).get('targs') or []) \
                    and ev.get('args'):
                o = self.obj_of(ev['args'][0])
                if o:
                    out.append((o, 'wrapped into CsgLeafNode'))
            if nm in ('ImplToLeaf', 'FromImpl') and ev.get('args'):
                o = self.obj_of(ev['args'][0])
                if o:
                    out.append((o, nm))
        return out

    # ---- driver -----------------------------------------------------------------------------
    def run(self):
        db = self.db
        methods = [f for f in db.functions.values() if f.get('blocks') and
                   (f.get('cls') == IMPL or (f.get('parent') and IMPL + '::' in f['parent']))]
        for it in range(25):
            changed = False
            for f in methods:
                if T.basename(f['name']) in self.prim:
                    if self.cache:
                        dyn = self.pbits | self.sbits
                        r0 = self.analyse(f, frozenset())
                        r1 = self.analyse(f, self.bits)
                        r2 = self.analyse(f, self.pbits)
                        if r0 is not None and r1 is not None and r2 is not None:
                            d = (frozenset(r0[0] & dyn), frozenset(dyn - r1[0]), frozenset(r2[0] & self.sbits))
                            if self.prim_dyn.get(T.basename(f['name'])) != d:
                                self.prim_dyn[T.basename(f['name'])] = d
                                changed = True
                    continue
                r0 = self.analyse(f, frozenset())
                r1 = self.analyse(f, self.bits)
                if r0 is None or r1 is None:
                    continue
                self.req_viol = []
                r0 = self.analyse(f, frozenset())
                internal = {(ln, r) for (ff, ln, obj, r, what) in self.req_viol if obj == 'this'}
                self.req_viol = []
                r1 = self.analyse(f, self.bits)
                entry = {(ln, r) for (ff, ln, obj, r, what) in self.req_viol if obj == 'this'} - internal
                gen = r0[0]
                kill = self.bits - r1[0]
                req = frozenset(r for (ln, r) in entry)
                s = (frozenset(gen), frozenset(kill), req)
                if self.summ.get(f['key']) != s:
                    self.summ[f['key']] = s
                    changed = True
                if self.cache:
                    r2 = self.analyse(f, self.pbits)
                    dif = frozenset(r2[0] & self.sbits) if r2 else frozenset()
                    if self.dyn_if.get(f['key']) != dif:
                        self.dyn_if[f['key']] = dif
                        changed = True
            self.req_viol = []
            if not changed:
                break
        else:
            raise AnalysisBroken('escape typestate summaries did not converge')
        self.methods = methods
        # final pass over every function that handles Impl objects
        res = []
        self.req_viol = []
        nfn = 0
        method_keys = {m['key'] for m in methods}
        for f in db.functions.values():
            if not f.get('blocks') or f['file'].startswith(('include/manifold/linalg', 'src/parallel.h', 'src/vec.h')):
                continue
            if not self._handles_impl(f) and f['key'] not in method_keys:
                continue
            nfn += 1
            init = frozenset()
            r = self.analyse(f, init)
            if r is None:
                continue
            exit_this, esc = r
            for (ln, obj, st, how) in esc:
                res.append((f, ln, obj, st & self.bits, how))
            # `this` at the normal exit of a public Impl constructor
            if f.get('cls') == IMPL and f.get('kind') == 'ctor' and len(f['params']) >= 1 and \
                    not any(db.T(f, p['t']).get('r') == IMPL for p in f['params']):
                res.append((f, f.get('endLine'), 'this', exit_this & self.bits, 'constructed Impl'))
        self.nfn = nfn
        return res, list(self.req_viol)

    def _handles_impl(self, f):
        for b in f['blocks']:
            for ev in b['ev']:
                if ev.get('k') == 'decl':
                    for v in ev['vars']:
                        t = self.db.T(f, v['t'])
                        if t.get('r') == IMPL or (t.get('r') in ('std::shared_ptr', 'std::unique_ptr') and
                                                  'Impl' in ''.join(t.get('targs') or [])):
                            return True
        return f.get('cls') == IMPL and f.get('kind') == 'ctor'


BIT_TEXT = {'T': 'tombstones (halfedge -1 / NaN vertex) not compacted', 'S': 'stranded vertices not removed',
            'G': 'import gate (IsManifold) not passed', 'B': 'bounding box not recomputed after positions changed',
            'K': 'collider not rebuilt after geometry changed',
            'F': 'vertex positions written by arithmetic and not tested finite (CalculateBBox / IsFinite)'}
BIT_TEXT['R'] = 'NaN marks of removed vertices pending compaction'
for _c in 'abcdefgh':
    BIT_TEXT[_c] = 'a mutable cache member of Impl not reset after the geometry changed'


def report(chk, esc, res, reqv, rid, cfgname, bits):
    n = 0
    for (f, ln, obj, st, how) in res:
        n += 1
        bad = sorted(st & frozenset(bits))
        chk.obligation(not bad, {'function': f['name'], 'line': ln, 'object': obj, 'escape': how,
                                 'state': ''.join(bad) or 'clean'})
        if bad:
            chk.violation(rid, f, '%s escapes with %s' % (obj, ''.join(bad)),
                          'Impl %s escapes (%s) with %s' % (obj, how, '; '.join(BIT_TEXT[b] for b in bad)),
                          line=ln, cfg=cfgname)
    for (f, ln, obj, r, what) in reqv:
        if r in bits:
            chk.obligation(False, {'function': f['name'], 'line': ln, 'object': obj, 'requires clear': r, 'at': what})
            chk.violation(rid, f, '%s needs %s clear at %s' % (obj, r, what),
                          '%s is reached while %s' % (what, BIT_TEXT[r]), line=ln, cfg=cfgname)
    chk.count(rid.lower() + '.escape_points', n)
    chk.count(rid.lower() + '.summarised_methods', len(esc.summ))
    chk.count(rid.lower() + '.functions', esc.nfn)
