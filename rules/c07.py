"""C07 — every output triangle traces back to its source / C08 — export/re-import is lossless
(structural clauses).

C07.1  exporter applies ONE triangle permutation to all per-triangle / per-halfedge attributes
C07.1b permutation-group completeness at the Permute/gather sites (also used by C14)
C07.2  one mesh-ID offset snapshot for triangles and relation keys (= C06.R2)
C07.3  run table assembly: runIndex/runOriginalID/runFlags pushed together, closing runIndex entry
C08.1  every MeshGL field the exporter writes is read by the importer
"""
import json
import os

import cfg as C
import tree as T
from db import AnalysisBroken, VERIF


def load_table():
    return json.load(open(os.path.join(VERIF, 'rules', 'tables', 'c07.json')))


def family(db, root):
    return [root] + [f for k, f in db.functions.items() if k.startswith(root['key'] + '::<lambda@')]


def exporters(db):
    fs = db.fn('manifold::GetMeshGLImpl')
    if len(fs) < 2:
        raise AnalysisBroken('exporter GetMeshGLImpl instantiations not found (%d)' % len(fs))
    return fs


def rule_perm(chk, db, cfgname, tab, rid):
    chk.rule(rid, 'in the MeshGL exporter every per-triangle / per-halfedge Impl attribute that reaches a per-triangle / '
             'per-halfedge output array is read through the same triangle permutation (all reads depend on the '
             'sorted index map, or none does)')
    attr_group = tab['impl_attribute_group']      # attr -> 'tri' | 'halfedge'
    out_group = tab['out_array_group']
    n = 0
    for root in exporters(db):
        fam = family(db, root)
        implname = root['params'][0]['n']
        # permutation variables: locals handed to a sort, and locals read out of them
        perm = set()
        alias = {}          # local -> impl attribute it aliases
        for f in fam:
            for b in f['blocks']:
                for ev in b['ev']:
                    if ev.get('k') == 'call' and T.short(ev.get('fn', '')) in ('stable_sort', 'sort'):
                        for a in ev.get('args', [])[:2]:
                            r = T.root_of(T.strip_copy(a))
                            if r is not None and r.get('k') == 'var' and r.get('s') == 'l':
                                perm.add(r['n'])
                    if ev.get('k') == 'decl':
                        for v in ev['vars']:
                            init = v.get('init')
                            if init is None:
                                continue
                            n0 = T.strip_copy(init)
                            while n0.get('k') == 'call' and n0.get('recv') is not None and not n0.get('args') and \
                                    (T.short(n0.get('fn', '')).startswith('operator ') or
                                     T.short(n0.get('fn', '')) in ('view', 'cview')):
                                n0 = T.strip_copy(n0['recv'])
                            if n0.get('k') == 'mem' and rooted(n0, implname) and n0['n'] in attr_group:
                                alias[v['n']] = n0['n']
        if not perm:
            raise AnalysisBroken('%s: exporter has no sorted index map' % rid)
        changed = True
        while changed:
            changed = False
            for f in fam:
                for b in f['blocks']:
                    for ev in b['ev']:
                        if ev.get('k') == 'decl':
                            for v in ev['vars']:
                                if v.get('init') is not None and v['n'] not in perm and \
                                        any(x.get('k') == 'var' and x['n'] in perm for x in T.walk(v['init'])) and \
                                        db.T(f, v['t']).get('k') == 'i':
                                    perm.add(v['n'])
                                    changed = True

        def permuted(idx):
            return any(x.get('k') == 'var' and x['n'] in perm for x in T.walk(idx))

        def attr_reads(e):
            """[(attr, permuted)] for reads of grouped Impl attributes inside e"""
            out = []
            for x in T.walk(e):
                if x.get('k') == 'call' and x.get('recv') is not None:
                    r = T.strip(x['recv'])
                    name = None
                    if r.get('k') == 'mem' and rooted(r, implname) and r['n'] in attr_group:
                        name = r['n']
                    elif r.get('k') == 'var' and r['n'] in alias:
                        name = alias[r['n']]
                    if name and x.get('args') and (x.get('op') == '[]' or x.get('mcls') == 'manifold::Halfedges'):
                        out.append((name, permuted(x['args'][0])))
                elif x.get('k') == 'sub':
                    r = T.strip(x['base'])
                    if r.get('k') == 'mem' and rooted(r, implname) and r['n'] in attr_group:
                        out.append((r['n'], permuted(x['idx'])))
            return out
        # local value flow
        carries = {}
        changed = True
        while changed:
            changed = False
            for f in fam:
                for b in f['blocks']:
                    for ev in b['ev']:
                        if ev.get('k') == 'decl':
                            for v in ev['vars']:
                                if v.get('init') is None or v['n'] in alias:
                                    continue
                                src = set(attr_reads(v['init']))
                                for x in T.walk(v['init']):
                                    if x.get('k') == 'var' and x['n'] in carries:
                                        src |= carries[x['n']]
                                if src and not src <= carries.get(v['n'], set()):
                                    carries[v['n']] = carries.get(v['n'], set()) | src
                                    changed = True
        flows = []
        for f in fam:
            for b in f['blocks']:
                for ev in b['ev']:
                    lhs = rhs = None
                    if ev.get('k') == 'bin' and ev.get('op') == '=':
                        lhs, rhs = ev['l'], ev['r']
                    elif ev.get('k') == 'call' and ev.get('op') == '=' and ev.get('recv') is not None:
                        lhs, rhs = ev['recv'], (ev.get('args') or [None])[0]
                    if lhs is None or rhs is None:
                        continue
                    l = T.strip(lhs)
                    tgt = None
                    if l.get('k') == 'call' and l.get('op') == '[]' and l.get('recv') is not None:
                        r = T.strip(l['recv'])
                        if r.get('k') == 'mem' and r['n'] in out_group and T.root_of(r) is not None and \
                                T.root_of(r).get('n') == 'out':
                            tgt = r['n']
                    if tgt is None:
                        continue
                    src = set(attr_reads(rhs))
                    for x in T.walk(rhs):
                        if x.get('k') == 'var' and x['n'] in carries:
                            src |= carries[x['n']]
                    for (a, p) in src:
                        flows.append((tgt, a, p, ev.get('ln'), f))
        if len({(t, a) for t, a, _, _, _ in flows}) < 3:
            raise AnalysisBroken('%s: fewer than 3 attribute flows found in the exporter' % rid)
        anyperm = any(p for _, _, p, _, _ in flows)
        for (tgt, a, p, ln, f) in flows:
            n += 1
            ok = (p == anyperm)
            chk.obligation(ok, {'function': root['name'], 'line': ln, 'out array': tgt, 'impl attribute': a,
                                'read through the sorted triangle map': p})
            if not ok:
                chk.violation(rid, root, 'out.%s <- impl.%s in internal order' % (tgt, a),
                              'triangles are emitted in run order (through %s) but %s is copied from %s in internal '
                              'order: the attribute is attached to the wrong triangle/halfedge after export' %
                              ('/'.join(sorted(perm)), tgt, a), line=ln, file=f['file'], cfg=cfgname)
    chk.count(rid.lower() + '.attribute_flows', n)


def rooted(n, name):
    r = T.root_of(n)
    return r is not None and r.get('k') == 'var' and r['n'] == name


def rule_groups(chk, db, cfgname, tab, rid):
    chk.rule(rid, 'at every permutation site the arrays moved by one permutation are the complete frozen group: '
             'each member is an argument of a Permute/gather/scatter/functor that also receives the permutation')
    n = 0
    for site in tab['permutation_sites']:
        fs = db.fn(site['function'])
        if 'arity' in site:
            fs = [f for f in fs if len(f['params']) == site['arity']]
        if not fs:
            raise AnalysisBroken('%s: permutation site %s not found' % (rid, site['function']))
        for f in fs:
            fam = family(db, f)
            moved = set()
            for ff in fam:
                for b in ff['blocks']:
                    for ev in b['ev']:
                        if ev.get('k') not in ('call', 'ctor', 'ilist', 'cast'):
                            continue
                        strs = []
                        for x in T.walk(ev):
                            if x.get('k') in ('var', 'mem'):
                                strs.append(T.pstr(x).replace('this->', ''))
                        if site['perm'] in strs:
                            moved.update(strs)
            for m in site['group']:
                n += 1
                ok = m in moved
                chk.obligation(ok, {'function': f['name'], 'permutation': site['perm'], 'member': m, 'moved': ok})
                if not ok:
                    chk.violation(rid, f, '%s not permuted by %s' % (m, site['perm']),
                                  'array %s belongs to the group reordered by %s in %s but no call moves it with '
                                  'that permutation: it stays attached to the old order' %
                                  (m, site['perm'], T.short(f['name'])), cfg=cfgname)
    chk.count(rid.lower() + '.group_members', n)


def rule_runs(chk, db, cfgname, rid):
    chk.rule(rid, 'run-table assembly in the exporter: on every path of addRun, runIndex, runOriginalID and runFlags '
             'each receive exactly one push_back; after the triangle loop a closing runIndex entry is pushed')
    for root in exporters(db):
        lam = [f for f in family(db, root) if f is not root and
               any(ev.get('k') == 'call' and T.short(ev.get('fn', '')) == 'push_back' and
                   'runIndex' in T.pstr(ev.get('recv', {})) for b in f['blocks'] for ev in b['ev'])]
        if len(lam) != 1:
            raise AnalysisBroken('%s: addRun lambda not identified (%d candidates)' % (rid, len(lam)))
        f = lam[0]
        g = C.Cfg(f)
        for fld in ('runIndex', 'runOriginalID', 'runFlags'):
            def tr(block, st, fld=fld):
                lo, hi = st
                for ev in block['ev']:
                    if ev.get('k') == 'call' and T.short(ev.get('fn', '')) == 'push_back' and \
                            ev.get('recv') is not None and T.strip(ev['recv']).get('n') == fld:
                        lo, hi = lo + 1, hi + 1
                return (lo, hi)
            IN, _ = C.forward(g, (0, 0), tr, lambda a, b: (min(a[0], b[0]), max(a[1], b[1])))
            lo, hi = IN.get(g.exit, (0, 0))
            ok = lo == 1 and hi == 1
            chk.obligation(ok, {'function': f['name'], 'field': fld, 'push_back per path': [lo, hi]})
            if not ok:
                chk.violation(rid, root, 'addRun pushes %s %d..%d times' % (fld, lo, hi),
                              'run arrays are no longer parallel: %s gets %d..%d entries per run' % (fld, lo, hi),
                              cfg=cfgname)
        # closing entry in the exporter body itself, not inside a loop
        g0 = C.Cfg(root)
        loops = g0.in_loop()
        closing = [b['id'] for b in root['blocks'] for ev in b['ev']
                   if ev.get('k') == 'call' and T.short(ev.get('fn', '')) == 'push_back' and
                   ev.get('recv') is not None and T.strip(ev['recv']).get('n') == 'runIndex']
        ok = any(c not in loops for c in closing)
        chk.obligation(ok, {'function': root['name'], 'closing runIndex.push_back outside loops': ok})
        if not ok:
            chk.violation(rid, root, 'closing runIndex entry', 'runIndex has no final entry: the last run does not '
                          'cover its triangles', cfg=cfgname)
    chk.count(rid.lower() + '.exporters', len(exporters(db)))


def rule_fields(chk, db, cfgname, tab, rid):
    chk.rule(rid, 'every MeshGL data member the exporter assigns or appends to is read by the importer '
             '(directly or through its accessors), for both instantiations')
    importers = [f for f in db.fn('manifold::Manifold::Impl::Impl')
                 if any(db.T(f, p['t']).get('r') == 'manifold::MeshGLP' for p in f['params'])]
    if len(importers) < 2:
        raise AnalysisBroken('%s: importers not found' % rid)
    # accessor summary: MeshGLP methods -> fields they read
    acc = {}
    for f in db.functions.values():
        if T.basename(f.get('cls', '') or '') == 'manifold::MeshGLP' and f.get('blocks'):
            for b in f['blocks']:
                for ev in b['ev']:
                    if ev.get('k') == 'mem' and T.strip(ev['base']).get('k') == 'this':
                        acc.setdefault(T.short(f['name']), set()).add(ev['n'])
    n = 0
    for ex, im in zip(sorted(exporters(db), key=lambda f: f['key']), sorted(importers, key=lambda f: f['key'])):
        written = {}
        for f in family(db, ex):
            for b in f['blocks']:
                for ev in b['ev']:
                    if ev.get('k') == 'mem' and T.basename(ev.get('cls', '')) == 'manifold::MeshGLP':
                        r = T.root_of(ev)
                        if r is not None and r.get('n') == 'out':
                            written.setdefault(ev['n'], ev.get('ln'))
        read = set()
        uname = [p['n'] for p in im['params'] if db.T(im, p['t']).get('r') == 'manifold::MeshGLP'][0]
        for f in family(db, im):
            for b in f['blocks']:
                for ev in b['ev']:
                    if ev.get('k') == 'mem' and T.basename(ev.get('cls', '')) == 'manifold::MeshGLP' and \
                            rooted(ev, uname):
                        read.add(ev['n'])
                    if ev.get('k') == 'call' and T.basename(ev.get('mcls', '') or '') == 'manifold::MeshGLP' and \
                            ev.get('recv') is not None and rooted(T.strip(ev['recv']), uname):
                        read |= acc.get(T.short(ev['fn']), set())
                t = b.get('term')
                if t and 'cond' in t:
                    for x in T.walk(t['cond']):
                        if x.get('k') == 'mem' and T.basename(x.get('cls', '')) == 'manifold::MeshGLP':
                            read.add(x['n'])
        if len(written) < 8:
            raise AnalysisBroken('%s: exporter writes only %d MeshGL fields' % (rid, len(written)))
        for fld, ln in sorted(written.items()):
            n += 1
            ok = fld in read
            chk.obligation(ok, {'exporter': ex['name'], 'field': fld, 'read by importer': ok})
            if not ok:
                chk.violation(rid, im, 'MeshGL.%s never read' % fld,
                              'the exporter writes %s but the importer never reads it: the information cannot '
                              'survive a round trip' % fld, line=ln, cfg=cfgname)
    chk.count(rid.lower() + '.written_fields', n)


def rule_backside(chk, db, cfgname, rid):
    chk.rule(rid, 'the orientation flag Relation::backSide composes by XOR: every assignment to it is ^= / a != b / '
             'a ^ b or a copy of another relation\'s flag, never a constant (a run subtracted twice must flip back)')
    n = 0
    for f in db.functions.values():
        for b in f.get('blocks', []):
            for ev in b['ev']:
                if ev.get('k') != 'bin' or ev.get('op') not in ('=', '^=', '|=', '&='):
                    continue
                l = T.strip(ev['l'])
                if not (l.get('k') == 'mem' and l['n'] == 'backSide' and 'Relation' in (l.get('cls') or '')):
                    continue
                n += 1
                r = T.strip(ev['r'])
                ok = ev['op'] == '^=' or (ev['op'] == '=' and (
                    (r.get('k') == 'bin' and r['op'] in ('^', '!=')) or
                    (r.get('k') == 'mem' and r['n'] == 'backSide')))
                chk.obligation(ok, {'function': f['name'], 'line': ev.get('ln'),
                                    'write': 'backSide %s %s' % (ev['op'], T.pstr(r)[:40])})
                if not ok:
                    chk.violation(rid, f, 'backSide %s %s' % (ev['op'], T.pstr(r)[:30]),
                                  'the back-side flag is overwritten instead of toggled: A - (B - C) leaves C\'s '
                                  'faces flagged back-side although they face the same way as their source',
                                  line=ev.get('ln'), cfg=cfgname)
    if n < 1:
        raise AnalysisBroken('%s: no write to Relation::backSide found' % rid)
    chk.count(rid.lower() + '.writes', n)


def rule_offsets(chk, db, cfgname, rid):
    chk.rule(rid, 'in Compose the mesh-ID block of node i is i * snapshot: the multiplier of the counter snapshot is '
             'the very variable that indexes nodes[...], so distinct nodes get distinct ID blocks')
    f = db.one('manifold::CsgLeafNode::Compose')
    fam = family(db, f)
    snap = set()
    for ff in fam:
        for b in ff['blocks']:
            for ev in b['ev']:
                if ev.get('k') == 'decl':
                    for v in ev['vars']:
                        if v.get('init') is not None and 'meshIDCounter_' in T.pstr(v['init']):
                            snap.add(v['n'])
    if not snap:
        raise AnalysisBroken('%s: counter snapshot not found in Compose' % rid)
    n = 0
    for ff in fam:
        idxvars = set()
        for b in ff['blocks']:
            for ev in b['ev']:
                for x in T.walk(ev):
                    if x.get('k') == 'call' and x.get('op') == '[]' and x.get('recv') is not None and \
                            T.strip(x['recv']).get('n') == 'nodes' and x.get('args'):
                        a = T.strip(x['args'][0])
                        if a.get('k') == 'var':
                            idxvars.add(a['n'])
        for b in ff['blocks']:
            for ev in b['ev']:
                if ev.get('k') != 'decl':
                    continue
                for v in ev['vars']:
                    init = v.get('init')
                    if init is None or not any(x.get('k') == 'var' and x['n'] in snap for x in T.walk(init)):
                        continue
                    if v['n'] in snap:
                        continue
                    n += 1
                    e = T.strip(init)
                    ok = e.get('k') == 'bin' and e['op'] == '*' and any(
                        T.strip(side).get('k') == 'var' and T.strip(side)['n'] in idxvars
                        for side in (e['l'], e['r']))
                    chk.obligation(ok, {'function': ff['name'], 'line': ev.get('ln'), 'offset': T.pstr(init)[:60],
                                        'multiplier is the node index': ok})
                    if not ok:
                        chk.violation(rid, f, 'offset = %s' % T.pstr(init)[:50],
                                      'the ID block of a composed node is not its own index times the snapshot: '
                                      'two nodes can receive the same meshIDs and share one run/transform',
                                      line=ev.get('ln'), cfg=cfgname)
    if n < 2:
        raise AnalysisBroken('%s: offset computations not found in Compose (%d)' % (rid, n))
    chk.count(rid.lower() + '.offsets', n)


def rule_emission(chk, db, cfgname, rid):
    chk.rule(rid, 'the exporter emits its optional run tables under structural conditions only: every push_back into '
             'an out.run* array in addRun is controlled by nothing but the original/non-original flag, so tables the '
             'importer honours together (runFlags with runTransform) are present together')
    n = 0
    for root in exporters(db):
        fam = family(db, root)
        # variables that depend only on originalID
        structural = set()
        changed = True
        while changed:
            changed = False
            for ff in fam:
                for b in ff['blocks']:
                    for ev in b['ev']:
                        if ev.get('k') == 'decl':
                            for v in ev['vars']:
                                if v['n'] in structural or v.get('init') is None:
                                    continue
                                vs = [x for x in T.walk(v['init']) if x.get('k') in ('var', 'mem')]
                                names = {x['n'] for x in vs}
                                if names and names <= (structural | {'originalID', 'meshRelation_', 'impl'}) and \
                                        'originalID' in (names | structural_sources(v['init'], structural)):
                                    structural.add(v['n'])
                                    changed = True
        for ff in fam:
            if ff is root:
                continue
            g = C.Cfg(ff)
            dom = g.dominators()
            for b in ff['blocks']:
                for ev in b['ev']:
                    if ev.get('k') == 'call' and T.short(ev.get('fn', '')) == 'push_back' and \
                            ev.get('recv') is not None and T.strip(ev['recv']).get('n', '').startswith('run'):
                        n += 1
                        bad = []
                        for d in dom.get(b['id'], ()):
                            if d == b['id']:
                                continue
                            cond, kind = C.branch_cond(g.blocks[d])
                            if cond is None or g.blocks[d]['term']['c'] in ('CXXForRangeStmt', 'ForStmt'):
                                continue
                            ss = g.real_succ(d)
                            if len(ss) == 2 and all(_reaches(g, x, b['id'], d) for x in ss):
                                continue
                            for x in T.walk(cond):
                                if x.get('k') == 'var' and x['n'] not in structural and x.get('s') != 'g':
                                    bad.append(x['n'])
                        ok = not bad
                        chk.obligation(ok, {'function': ff['name'], 'line': ev.get('ln'),
                                            'array': T.strip(ev['recv'])['n'], 'controlled by': sorted(set(bad)) or
                                            'structural flags only'})
                        if not ok:
                            chk.violation(rid, root, 'out.%s emitted under %s' % (T.strip(ev['recv'])['n'],
                                                                                  ','.join(sorted(set(bad)))),
                                          'a run table is written only when a data-dependent condition (%s) holds: the '
                                          'importer ignores runFlags\' back-side bit when runTransform is absent, so '
                                          'the information is lost on re-import' % ','.join(sorted(set(bad))),
                                          line=ev.get('ln'), file=ff['file'], cfg=cfgname)
    if n < 4:
        raise AnalysisBroken('%s: run-table push_backs not found (%d)' % (rid, n))
    chk.count(rid.lower() + '.emissions', n)


def structural_sources(e, structural):
    out = set()
    for x in T.walk(e):
        if x.get('k') == 'mem' and x['n'] == 'originalID':
            out.add('originalID')
        if x.get('k') == 'var' and x['n'] in structural:
            out.add('originalID')
    return out


def _reaches(g, src, target, avoid):
    seen = set()
    st = [src]
    while st:
        x = st.pop()
        if x == target:
            return True
        if x in seen or x == avoid or x is None or x < 0:
            continue
        seen.add(x)
        st.extend(g.real_succ(x))
    return False


def rule_run_domain(chk, db, cfgname, rid):
    chk.rule(rid, 'the importer accepts every run table the exporter can produce: run boundaries may repeat (a run '
             'with no triangles), so the importer\'s monotonicity rejection is strict (>), never >= / greater_equal')
    importers = [f for f in db.fn('manifold::Manifold::Impl::Impl')
                 if any(db.T(f, p['t']).get('r') == 'manifold::MeshGLP' for p in f['params'])]
    n = 0
    for f in importers:
        for ff in family(db, f):
            for b in ff['blocks']:
                t = b.get('term')
                conds = [t['cond']] if t and 'cond' in t else []
                for ev in b['ev']:
                    if ev.get('k') == 'call' and T.short(ev.get('fn', '')) in ('adjacent_find', 'is_sorted',
                                                                               'is_sorted_until'):
                        conds.append(ev)
                for c in conds:
                    for x in T.walk(c):
                        if x.get('k') == 'bin' and x['op'] in ('>', '>=', '<', '<=') and \
                                'runIndex' in T.pstr(x['l']) and 'runIndex' in T.pstr(x['r']):
                            n += 1
                            ok = x['op'] in ('>', '<')
                            chk.obligation(ok, {'function': ff['name'], 'line': x.get('ln'),
                                                'comparison': T.pstr(x)[:60]})
                            if not ok:
                                chk.violation(rid, f, 'run boundaries compared with %s' % x['op'],
                                              'equal consecutive runIndex entries (a run that contributed no '
                                              'triangles, which the exporter emits) are rejected', line=x.get('ln'),
                                              cfg=cfgname)
                        if x.get('k') == 'call' and T.short(x.get('fn', '')) in ('adjacent_find', 'is_sorted') and \
                                'runIndex' in T.pstr(x):
                            n += 1
                            s0 = json.dumps(x)
                            ok = 'greater_equal' not in s0 and 'less_equal' not in s0
                            chk.obligation(ok, {'function': ff['name'], 'line': x.get('ln'),
                                                'algorithm': T.short(x['fn'])})
                            if not ok:
                                chk.violation(rid, f, 'run boundaries checked with *_equal functor',
                                              'equal consecutive runIndex entries are rejected', line=x.get('ln'),
                                              cfg=cfgname)
    if n < 2:
        raise AnalysisBroken('%s: no monotonicity check of runIndex found in the importer' % rid)
    chk.count(rid.lower() + '.comparisons', n)


def rule_prop_domain(chk, db, cfgname, rid):
    chk.rule(rid, 'the property-vertex indices stored on halfedges stay inside the property table: a function that '
             'empties Impl::properties_ while keeping the halfedges resets every halfedge property index to its start '
             'vertex (SetProp(e, Start(e))) - NumPropVert() falls back to NumVert() when there are no properties, so '
             'stale indices run past every table sized by it')
    IMPL = 'manifold::Manifold::Impl'
    n = 0
    for f in db.functions.values():
        if not f.get('blocks') or not f['file'].startswith('src/'):
            continue
        fam = None
        for b in f['blocks']:
            for e in b['ev']:
                if e.get('k') == 'call' and T.short(e.get('fn', '')) == 'clear' and e.get('recv') is not None:
                    r = T.strip(e['recv'])
                    if not (r.get('k') == 'mem' and r.get('n') == 'properties_' and r.get('cls') == IMPL):
                        continue
                    obj = T.pstr(r['base'])
                    fam = fam or [f] + [g for k, g in db.functions.items() if k.startswith(f['key'] + '::<lambda@')]
                    # the halfedges go too (MakeEmpty-like), or their property indices are reset
                    cleared_he = reset = False
                    for ff in fam:
                        for bb in ff['blocks']:
                            for ee in bb['ev']:
                                if ee.get('k') != 'call' or ee.get('recv') is None:
                                    continue
                                rr = T.strip(ee['recv'])
                                if rr.get('k') == 'mem' and rr.get('n') == 'halfedge_' and T.pstr(rr['base']) == obj:
                                    m = T.short(ee.get('fn', ''))
                                    if m == 'clear':
                                        cleared_he = True
                                    if m == 'SetProp' and len(ee.get('args', [])) == 2 and any(
                                            isinstance(y, dict) and y.get('k') == 'call' and
                                            T.short(y.get('fn', '')) == 'Start' for y in T.walk(ee['args'][1])):
                                        reset = True
                    n += 1
                    ok = cleared_he or reset
                    chk.obligation(ok, {'function': f['name'][:70], 'line': e.get('ln'), 'object': obj,
                                        'halfedges cleared too': cleared_he, 'property indices reset to Start(e)': reset})
                    if not ok:
                        chk.violation(rid, f, '%s.properties_ emptied, halfedge property indices kept' % obj,
                                      'properties_ of %s is cleared but its halfedges keep their old property-vertex '
                                      'indices: with no properties NumPropVert() == NumVert(), so the export lists '
                                      'vertex indices beyond NumVert() and the next SetProperties overruns its table'
                                      % obj, line=e.get('ln'), cfg=cfgname)
    chk.count(rid.lower() + '.property_table_resets', n)


def rule_seam_both_ends(chk, db, cfgname, rid):
    chk.rule(rid, 'an edge is a property seam when the property vertices of its two halfedges differ at EITHER end: a '
             'function that compares (== / !=) the paired halfedge\'s property index at one end of the edge - '
             'Prop(pair) or PropEnd(pair) / Prop(NextHalfedge(pair)), pair = Pair(e) - with the property index of e '
             'itself also makes that comparison at the other end (sibling agreement of the seam tests in Continuous, '
             'HasSimpleProps and Subdivide); comparisons with another halfedge\'s index are per-vertex tests and '
             'are not judged')
    n = 0
    for f in db.functions.values():
        if not f.get('blocks') or not f['file'].startswith('src/'):
            continue
        # locals are identified by their declaration position, and only those that are never re-assigned count
        # (an orbit cursor `current = Pair(current)` walks a vertex fan: comparing its property index with a
        # fixed one is a per-vertex test, not an edge-level seam test)
        inits = {}
        assigned = set()
        for b in f['blocks']:
            for e in b['ev']:
                if e.get('k') == 'decl':
                    for v in e['vars']:
                        if isinstance(v.get('init'), dict) and v.get('d'):
                            inits[v['d']] = v['init']
                for y in T.walk(e):
                    if isinstance(y, dict) and ((y.get('k') == 'bin' and y.get('op', '').endswith('=') and
                                                 y.get('op') not in ('==', '!=', '<=', '>=')) or
                                                (y.get('k') == 'un' and y.get('op') in ('++', '--'))):
                        t = T.strip(y.get('l') or y.get('e') or {})
                        if t.get('k') == 'var' and t.get('d'):
                            assigned.add(t['d'])
        pairs = {}      # declaration of the local -> text of e in `Pair(e)`
        for name, init in inits.items():
            if name in assigned:
                continue
            i0 = T.strip_copy(init)
            if i0.get('k') == 'call' and T.short(i0.get('fn', '')) == 'Pair' and i0.get('args') and \
                    'Halfedges' in (i0.get('mcls') or i0.get('fn', '')):
                pairs[name] = T.pstr(T.strip_copy(i0['args'][0]))
        if not pairs:
            continue

        def is_pair(a):
            a = T.strip_copy(a)
            return a.get('k') == 'var' and a.get('d') in pairs

        def own_side(x, depth=0):
            """text of e when x is a property index of the halfedge e itself: Prop(e), PropEnd(e), Prop(Next(e))"""
            x = T.strip_copy(x)
            if x.get('k') == 'var' and x.get('d') in inits and x['d'] not in assigned and depth < 2:
                return own_side(inits[x['d']], depth + 1)
            if x.get('k') != 'call' or not x.get('args') or T.short(x.get('fn', '')) not in ('Prop', 'PropEnd'):
                return None
            a = T.strip_copy(x['args'][0])
            if a.get('k') == 'call' and T.short(a.get('fn', '')) == 'NextHalfedge' and a.get('args'):
                a = T.strip_copy(a['args'][0])
            return T.pstr(a)

        def pair_of(x, depth=0):
            """declaration of the pair local whose property index x is"""
            x = T.strip_copy(x)
            if x.get('k') == 'var' and x.get('d') in inits and x['d'] not in assigned and depth < 2:
                return pair_of(inits[x['d']], depth + 1)
            for y in T.walk(x):
                if isinstance(y, dict) and y.get('k') == 'var' and y.get('d') in pairs:
                    return y['d']
            return None

        def side(x, depth=0):
            """'start' / 'end': the paired halfedge's property index at its start / end vertex"""
            x = T.strip_copy(x)
            if x.get('k') == 'var' and x.get('d') in inits and x['d'] not in assigned and depth < 2:
                return side(inits[x['d']], depth + 1)
            if x.get('k') != 'call' or not x.get('args'):
                return None
            m = T.short(x.get('fn', ''))
            a = T.strip_copy(x['args'][0])
            if m == 'Prop' and is_pair(a):
                return 'start'
            if m == 'PropEnd' and is_pair(a):
                return 'end'
            if m == 'Prop' and a.get('k') == 'call' and T.short(a.get('fn', '')) == 'NextHalfedge' and \
                    a.get('args') and is_pair(a['args'][0]):
                return 'end'
            return None
        seen = {}
        roots = [e for b in f['blocks'] for e in b['ev']] + \
                [b['term']['cond'] for b in f['blocks'] if b.get('term') and isinstance(b['term'].get('cond'), dict)]
        for r in roots:
            for y in T.walk(r):
                if isinstance(y, dict) and y.get('k') == 'bin' and y.get('op') in ('==', '!='):
                    # an edge-level seam comparison relates the pair's property index with the property index of
                    # the very halfedge e the pair was taken from (pair = Pair(e)); a comparison with the property
                    # index of some other halfedge is a per-vertex test (SwapEdge borrowing a neighbour's vertex)
                    for o, other in ((y['l'], y['r']), (y['r'], y['l'])):
                        sd = side(o)
                        if sd and own_side(other) is not None and own_side(other) == pairs.get(pair_of(o)):
                            seen.setdefault(sd, (y.get('ln'), T.pstr(y)[:80]))
        if not seen:
            continue
        n += 1
        ok = len(seen) == 2 or any(f['name'].startswith(r['function']) for r in
                                   load_table().get('one_ended_seam_tests_reviewed', []))
        chk.obligation(ok, {'function': f['name'][:70], 'pair locals': sorted(pairs.values()),
                            'ends compared': {k: v[1] for k, v in seen.items()}})
        if not ok:
            have = list(seen)[0]
            ln, tx = seen[have]
            chk.violation(rid, f, 'seam test looks at one end only (%s)' % tx,
                          'the paired halfedge\'s property vertex is compared only at its %s (%s, line %s): an edge '
                          'whose two sides share the property vertex at that end but not at the other one is taken '
                          'for seamless, so vertices created on it get the properties of the wrong side'
                          % (have, tx, ln), line=ln, cfg=cfgname)
    chk.count(rid.lower() + '.seam_tests', n)


def main(chk, tier):
    import db as D
    import c06
    configs = ['seq', 'par'] if tier == 'quick' else ['seq', 'par', 'seq-debug', 'par-debug']
    tab = load_table()
    for cfgname in configs:
        db = D.load(cfgname)
        chk.configs.append(cfgname)
        chk.units = len(db.units)
        chk.functions_analysed += len(db.functions)
        rule_perm(chk, db, cfgname, tab, 'C07.1')
        rule_groups(chk, db, cfgname, tab, 'C07.1b')
        c06.rule_r2(chk, db, cfgname, {}, rid='C07.2')
        rule_runs(chk, db, cfgname, 'C07.3')
        rule_backside(chk, db, cfgname, 'C07.4')
        rule_offsets(chk, db, cfgname, 'C07.5')
        rule_prop_domain(chk, db, cfgname, 'C07.6')
        rule_seam_both_ends(chk, db, cfgname, 'C07.7')
    n = len(configs)
    chk.floor('c07.1.attribute_flows', 4 * n)
    chk.floor('c07.1b.group_members', 12 * n)
    chk.floor('c07.7.seam_tests', 2 * n)
    return chk.finish(
        'Index-provenance analysis of the MeshGL exporter (every per-triangle/per-halfedge attribute that reaches an '
        'output array is read through the one sorted triangle map), permutation-group completeness at the sort/'
        'gather sites, a single mesh-ID offset snapshot per Boolean/Compose, and pairing of the run-table '
        'push_backs. Decides that attributes stay attached to their triangle through sorting and export; does not '
        'decide barycentric interpolation, snapping or tolerances.',
        assumptions=['the frozen groups in tables/c07.json list the arrays that are parallel per index space',
                     'value flow through locals is flow-insensitive inside the exporter'])
