"""C05 — Manifolds and CrossSections are values.

Rule 1  copy-on-write typestate: every mutation of a Halfedges object (the shared
        halfedge arrays of an Impl) happens in state Unique
Rule 2  constness of shared payloads / no const-removing casts / public API constness /
        mutable members limited to the guarded lazy fields
Rule 3  lazily rewritten mutable fields are read only after the forcing call
"""
import json
import os

import cfg as C
import tree as T
from db import AnalysisBroken, VERIF

HE = 'manifold::Halfedges'
IMPL = 'manifold::Manifold::Impl'
NON_MUTATING = {'MakeUnique', 'operator='}


def norm(p):
    return p.replace('->', '.').replace('(*this)', 'this')


class Typestate:
    def __init__(self, db):
        self.db = db
        he = db.classes.get(HE)
        if not he:
            raise AnalysisBroken('class %s not found' % HE)
        self.mutators = {m['n'] for m in he['methods']
                         if m['kind'] == 'method' and not m['const'] and not m['static']
                         and m['n'] not in NON_MUTATING}
        self.he_fields = {f['n'] for f in he['fields']}
        if len(self.mutators) < 8 or 'MakeUnique' not in {m['n'] for m in he['methods']}:
            raise AnalysisBroken('Halfedges mutator set looks wrong: %s' % sorted(self.mutators))
        self.requires = {}     # fn key -> frozenset of keys (this.x / param names) needing Unique
        self.ensures = {}      # fn key -> bool: this.halfedge_ unique at exit
        self.viol = {}         # fn key -> list of (line, key, what)
        self.sites = {}        # fn key -> list of mutation sites (line, key, what, discharged-how)
        self.qname_cls = {}
        for c in db.classes.values():
            self.qname_cls.setdefault(c['qname'], c)

    # ---- typing helpers ---------------------------------------------------------
    def rec(self, fn, node):
        return self.db.T(fn, node).get('r') if 't' in node else None

    def is_impl(self, t):
        return t.get('r') == IMPL and not t.get('ptr')

    def is_he(self, t):
        return t.get('r') == HE and not t.get('ptr')

    def smart_impl(self, t):
        return t.get('r') in ('std::shared_ptr', 'std::unique_ptr') and t.get('targs') and \
            'Impl' in t['targs'][0] and 'const' not in t['targs'][0]

    # ---- per-function analysis ----------------------------------------------------
    def analyse(self, fn):
        db = self.db
        g = C.Cfg(fn)
        if not g.ok():
            return
        # reference aliases: Halfedges& h = x.halfedge_;  Impl& impl = *p;
        alias = {}
        for _, ev in g.events():
            if ev.get('k') == 'decl':
                for v in ev['vars']:
                    t = db.T(fn, v['t'])
                    if t.get('ref') and 'init' in v and (self.is_he(t) or self.is_impl(t)):
                        init = T.strip(v['init'])
                        if T.root_of(init) is not None:
                            alias[v['n']] = norm(T.pstr(init)).lstrip('*')

        def key(node):
            p = norm(T.pstr(T.strip(node)))
            while p.startswith('*'):
                p = p[1:]
            if p.startswith('(') and p.endswith(')'):
                p = p[1:-1]
            head = p.split('.')[0]
            if head in alias:
                p = alias[head] + p[len(head):]
            return p

        own_cls = fn.get('cls') or ''
        init = set()
        if fn.get('kind') == 'ctor' and own_cls == IMPL:
            init.add('this.halfedge_')
        if fn.get('kind') == 'ctor' and own_cls == HE:
            init.add('this')
        by_ref_params = {}
        for p in fn['params']:
            t = db.T(fn, p['t'])
            by_ref_params[p['n']] = bool(t.get('ref') or t.get('ptr')) and not t.get('rref')
        is_lambda = fn.get('kind') == 'lambda'
        req = set()
        viol = []
        sites = []

        def mutate(U, k, line, what):
            """a mutation of the halfedge object named k"""
            if k in U:
                sites.append((line, k, what, 'unique on every path'))
                return
            root = k.split('.')[0].split('[')[0]
            if root == 'this' and fn.get('kind') != 'function':
                req.add(k)
                sites.append((line, k, what, 'required from callers (this)'))
            elif root in by_ref_params and by_ref_params[root]:
                req.add(k)
                sites.append((line, k, what, 'required from callers (param %s)' % root))
            elif is_lambda and root not in by_ref_params and not self._is_own_local(fn, root):
                req.add(k)
                sites.append((line, k, what, 'required from the enclosing function (capture)'))
            else:
                viol.append((line, k, what))
                sites.append((line, k, what, 'NOT UNIQUE'))

        def callee_fns(call):
            fk = call.get('fk')
            return [db.functions[fk]] if fk and fk in db.functions else []

        def fresh_value(node):
            """expression yields a freshly built (unique) Halfedges/Impl"""
            n = T.strip(node)
            if n.get('k') == 'ctor':
                if n.get('copy'):
                    return False
                if n.get('move'):
                    return None   # depends on the source
                return True
            if n.get('k') in ('ilist', 'zero'):
                return True
            return False

        def transfer(block, U):
            U = set(U)
            for ev in block['ev']:
                k = ev.get('k')
                ln = ev.get('ln')
                if k == 'decl':
                    for v in ev['vars']:
                        t = db.T(fn, v['t'])
                        if t.get('ref') or t.get('ptr'):
                            continue
                        init_ = v.get('init')
                        if self.is_impl(t) or self.is_he(t):
                            kk = v['n'] + ('.halfedge_' if self.is_impl(t) else '')
                            U.discard(kk)
                            if init_ is None:
                                U.add(kk)
                            else:
                                n = T.strip(init_)
                                fv = fresh_value(n)
                                if fv is True:
                                    U.add(kk)
                                elif fv is None:      # move construction
                                    src = T.strip(n['args'][0])
                                    if src.get('k') == 'call' and T.short(src.get('fn', '')) == 'move':
                                        src = T.strip(src['args'][0])
                                    sk = key(src) + ('' if key(src).endswith('halfedge_') or self.is_he(t) else '.halfedge_')
                                    if sk in U:
                                        U.add(kk)
                                    elif src.get('k') == 'call':
                                        pass   # value returned by a call: may be shared
                                elif n.get('k') == 'ctor' and n.get('copy'):
                                    # the documented contract: copies share; both sides MaybeShared
                                    src = T.strip(n['args'][0])
                                    sk = key(src)
                                    U.discard(sk + '.halfedge_')
                                    U.discard(sk)
                        elif self.smart_impl(t):
                            kk = v['n'] + '.halfedge_'
                            U.discard(kk)
                            if init_ is not None:
                                n = T.strip_copy(init_)
                                if n.get('k') == 'call' and T.short(n.get('fn', '')) in ('make_shared', 'make_unique'):
                                    a = n.get('args', [])
                                    if not a or not self.is_impl(db.T(fn, T.strip(a[0]))) and \
                                            not (T.strip(a[0]).get('k') == 'un' and T.strip(a[0]).get('op') == '*'):
                                        U.add(kk)
                                    else:
                                        src = key(a[0])
                                        U.discard(src + '.halfedge_')
                    continue
                if k == 'call' and ev.get('mcls') == HE and ev.get('recv') is not None:
                    name = T.short(ev['fn'])
                    rk = key(ev['recv'])
                    if name == 'MakeUnique':
                        U.add(rk)
                        sites.append((ln, rk, 'MakeUnique', 'establishes Unique'))
                        continue
                    if name == 'operator=':
                        a = T.strip(ev['args'][0]) if ev.get('args') else None
                        fv = fresh_value(a) if a else False
                        if fv is True:
                            U.add(rk)
                        elif fv is None:
                            src = T.strip(a['args'][0])
                            if src.get('k') == 'call' and T.short(src.get('fn', '')) == 'move':
                                src = T.strip(src['args'][0])
                            if key(src) in U:
                                U.add(rk)
                            else:
                                U.discard(rk)
                        else:
                            # copy assignment shares the buffer: both sides MaybeShared
                            U.discard(rk)
                            if a is not None and T.root_of(a) is not None:
                                U.discard(key(a))
                            sites.append((ln, rk, 'copy-assign (shares)', 'generates MaybeShared'))
                        continue
                    if name in self.mutators:
                        mutate(U, rk, ln, 'Halfedges::' + name)
                        continue
                # whole-Impl assignment
                if k == 'call' and ev.get('mcls') == IMPL and ev.get('op') == '=' and ev.get('recv') is not None:
                    rk = key(ev['recv']) + '.halfedge_'
                    a = T.strip(ev['args'][0]) if ev.get('args') else None
                    if a is not None and fresh_value(a) is True:
                        U.add(rk)
                    else:
                        U.discard(rk)
                        if a is not None and T.root_of(a) is not None:
                            U.discard(key(a) + '.halfedge_')
                    continue
                # copy construction of an Impl from X anywhere (make_shared<Impl>(*x), Impl(y))
                if k == 'ctor' and ev.get('cls') == IMPL and ev.get('copy'):
                    src = T.strip(ev['args'][0])
                    if T.root_of(src) is not None:
                        U.discard(key(src) + '.halfedge_')
                if k == 'call' and T.short(ev.get('fn', '')) in ('make_shared', 'make_unique'):
                    a = ev.get('args', [])
                    if a and self.is_impl(db.T(fn, ev['t']) if False else {'r': None}) is False:
                        pass
                # calls into functions with a RequiresUnique summary
                if k in ('call', 'ctor'):
                    for c in callee_fns(ev):
                        if c.get('kind') == 'lambda':
                            continue   # captured names: handled below
                        rq = self.requires.get(c['key'])
                        if not rq:
                            if self.ensures.get(c['key']) and ev.get('recv') is not None:
                                U.add(key(ev['recv']) + '.halfedge_')
                            continue
                        pn = [p['n'] for p in c['params']]
                        for r in rq:
                            root = r.split('.')[0]
                            rest = r[len(root):]
                            if root == 'this':
                                if ev.get('recv') is None:
                                    continue
                                mutate(U, key(ev['recv']) + rest, ln, 'call ' + T.basename(c['name']))
                            elif root in pn:
                                i = pn.index(root)
                                args = ev.get('args', [])
                                if i < len(args):
                                    mutate(U, key(args[i]) + rest, ln, 'call ' + T.basename(c['name']))
                        if self.ensures.get(c['key']) and ev.get('recv') is not None:
                            U.add(key(ev['recv']) + '.halfedge_')
                    # lambdas / functors handed to this call
                    for x in T.walk(ev):
                        if x is ev and x.get('k') == 'lambda':
                            continue
                        if x.get('k') == 'lambda':
                            rq = self.requires.get(x['fk'])
                            for r in rq or ():
                                mutate(U, r, ln, 'lambda body')
                        elif x.get('k') in ('ilist', 'ctor') and 't' in x:
                            self._functor(fn, x, U, ln, mutate, key)
                    # direct invocation of a local lambda
                    fk = ev.get('fk')
                    if fk and fk in db.functions and db.functions[fk].get('kind') == 'lambda':
                        for r in self.requires.get(fk) or ():
                            if not r.startswith('this.') or fn.get('kind') != 'function':
                                mutate(U, r, ln, 'lambda call')
            return frozenset(U)

        IN, OUT = C.forward(g, frozenset(init), transfer, lambda a, b: a & b)
        ex = IN.get(g.exit, frozenset())
        self.sites[fn['key']] = sites
        self.viol[fn['key']] = viol
        return frozenset(req), ('this.halfedge_' in ex)

    def _is_own_local(self, fn, name):
        cache = fn.setdefault('_locals', None)
        if cache is None:
            cache = set()
            for b in fn.get('blocks', []):
                for ev in b['ev']:
                    if ev.get('k') == 'decl':
                        for v in ev['vars']:
                            cache.add(v['n'])
            fn['_locals'] = cache
        return name in cache

    def _functor(self, fn, node, U, ln, mutate, key):
        """construction of a functor object whose reference fields are bound to
        Halfedges objects that its methods mutate"""
        t = self.db.T(fn, node)
        cls = self.qname_cls.get(t.get('r'))
        if not cls:
            return
        need = set()
        for f in self.db.functions.values():
            if f.get('cls') == cls['qname'] and f.get('kind') in ('method',):
                for r in self.requires.get(f['key']) or ():
                    if r.startswith('this.'):
                        need.add(r[5:].split('.')[0])
        if not need:
            return
        fields = [f['n'] for f in cls['fields'] if not f.get('static')]
        args = node.get('args', [])
        if node.get('k') == 'ilist':
            for i, a in enumerate(args):
                if i < len(fields) and fields[i] in need:
                    mutate(U, key(a), ln, 'functor %s.%s' % (T.short(cls['qname']), fields[i]))

    def run(self):
        fns = [f for f in self.db.functions.values()
               if f.get('blocks') and f.get('cls') != HE and
               not f['file'].startswith(('include/manifold/linalg', 'src/parallel.h', 'src/vec.h',
                                         'include/manifold/vec_view'))]
        # cheap prefilter: mentions Halfedges / Impl at all
        rel = []
        for f in fns:
            if self._relevant(f):
                rel.append(f)
        self.fns = rel
        for it in range(20):
            changed = False
            for f in rel:
                r = self.analyse(f)
                if r is None:
                    continue
                rq, en = r
                if self.requires.get(f['key'], frozenset()) != rq:
                    self.requires[f['key']] = rq
                    changed = True
                if self.ensures.get(f['key'], False) != en:
                    self.ensures[f['key']] = en
                    changed = True
            if not changed:
                return
        raise AnalysisBroken('C05 typestate summaries did not converge')

    def _relevant(self, f):
        for b in f['blocks']:
            for ev in b['ev']:
                for x in T.walk(ev):
                    if 't' in x:
                        r = self.db.T(f, x).get('r')
                        if r in (HE, IMPL):
                            return True
                    if x.get('k') == 'lambda':
                        return True
        return False


def rule1(chk, db, cfgname):
    chk.rule('C05.1', 'copy-on-write typestate: every mutation of a Halfedges object is reached only in state '
             'Unique (fresh construction, MakeUnique(), move from Unique); copy construction/assignment makes '
             'both sides MaybeShared; obligations propagate through this/reference parameters/lambda captures/'
             'functor reference fields to the object\'s creation')
    ts = Typestate(db)
    ts.run()
    nmut = 0
    for f in ts.fns:
        for (ln, k, what, how) in ts.sites.get(f['key'], []):
            if what in ('MakeUnique', 'copy-assign (shares)'):
                chk.count('c05.1.' + ('make_unique' if what == 'MakeUnique' else 'sharing_assign'))
                continue
            nmut += 1
            chk.obligation(how != 'NOT UNIQUE', {'function': f['name'], 'line': ln, 'object': k,
                                                 'mutation': what, 'state': how})
        for (ln, k, what) in ts.viol.get(f['key'], []):
            chk.violation('C05.1', f, '%s via %s' % (k, what),
                          'halfedge storage %s may be shared with another Manifold when it is mutated (%s): '
                          'no MakeUnique()/fresh construction on every path' % (k, what), line=ln, cfg=cfgname)
    chk.count('c05.1.mutation_sites', nmut)
    chk.count('c05.1.functions', len(ts.fns))
    chk.count('c05.1.requires_summaries', sum(1 for v in ts.requires.values() if v))
    # the raw arrays are touched only inside Halfedges
    outside = 0
    for f in db.functions.values():
        if f.get('cls') == HE or not f.get('blocks'):
            continue
        if f.get('parent') and HE + '::' in f['parent']:
            continue
        for b in f['blocks']:
            for ev in b['ev']:
                if ev.get('k') == 'mem' and ev.get('cls') == HE and ev['n'] in ts.he_fields:
                    outside += 1
                    chk.violation('C05.1', f, 'raw access %s' % ev['n'],
                                  'Halfedges::%s accessed outside the Halfedges class: bypasses the '
                                  'mutator set the typestate tracks' % ev['n'], line=ev.get('ln'), cfg=cfgname)
    chk.obligation(outside == 0, {'raw accesses to start_/paired_/propVert_ outside Halfedges': outside})
    return ts


def load_table():
    return json.load(open(os.path.join(VERIF, 'rules', 'tables', 'c05.json')))


def rule2(chk, db, cfgname):
    chk.rule('C05.2', 'shared payloads are const (shared_ptr<const Impl>, shared_ptr<const PathImpl>, const '
             'Polygons); no cast removes const; every public non-assignment method of Manifold/CrossSection is '
             'const; mutable members are exactly the lazily rewritten fields and their guards')
    tab = load_table()
    # (a) payload field types
    for cls, fld, must in tab['const_payload_fields']:
        c = db.classes.get(cls)
        if not c:
            raise AnalysisBroken('C05.2: class %s not found' % cls)
        f = [x for x in c['fields'] if x['n'] == fld]
        if not f:
            raise AnalysisBroken('C05.2: field %s::%s not found' % (cls, fld))
        t = db.types[c['tu']][f[0]['t']]
        ok = must in t['s']
        chk.obligation(ok, {'field': cls + '::' + fld, 'type': t['s'], 'required': must})
        chk.count('c05.2.payload_fields')
        if not ok:
            chk.violation('C05.2', cls + '::' + fld, 'payload type', 'shared payload is no longer const-qualified: '
                          '%s (need %s)' % (t['s'], must), file=c['file'], line=f[0]['line'], cfg=cfgname)
    # (b) const-removing casts
    allowed = {(a['function'], a['to']) for a in tab['allowed_const_casts']}
    ncast = 0
    for f in db.functions.values():
        for b in f.get('blocks', []):
            for ev in b['ev']:
                if ev.get('k') == 'call' and T.short(ev.get('fn', '')) == 'const_pointer_cast':
                    chk.violation('C05.2', f, 'const_pointer_cast', 'removes const from a shared payload pointer',
                                  line=ev.get('ln'), cfg=cfgname)
                if ev.get('k') != 'cast' or ev.get('impl'):
                    continue
                ncast += 1
                t = db.T(f, ev['t'])
                fr = db.T(f, ev['from']) if 'from' in ev else {}
                removes = ev.get('form') == 'const' or (
                    (fr.get('pconst') or (fr.get('const') and t.get('ref'))) and
                    (t.get('ptr') or t.get('ref')) and not (t.get('pconst') or t.get('const')))
                if not removes:
                    continue
                if (T.basename(f['name']), t['s']) in allowed:
                    chk.count('c05.2.allowed_const_casts')
                    continue
                chk.violation('C05.2', f, 'cast %s -> %s' % (fr.get('s'), t['s']),
                              'cast removes const (%s): a mutation channel into shared storage' % ev.get('form'),
                              line=ev.get('ln'), cfg=cfgname)
    chk.count('c05.2.explicit_casts', ncast)
    chk.obligation(True, {'explicit casts examined': ncast, 'const-removing (allowed table)':
                          chk.counts.get('c05.2.allowed_const_casts', 0)})
    # (c) public API constness, (d) mutable members
    for cls in ('manifold::Manifold', 'manifold::CrossSection'):
        c = db.classes.get(cls)
        if not c:
            raise AnalysisBroken('C05.2: class %s not found' % cls)
        for m in c['methods']:
            if m['access'] != 0 or m['static'] or m['kind'] != 'method' or m.get('deleted'):
                continue
            chk.count('c05.2.public_methods')
            ok = m['const'] or m['n'] in tab['nonconst_public_ok']
            chk.obligation(ok, {'method': cls + '::' + m['n'], 'const': m['const']})
            if not ok:
                chk.violation('C05.2', cls + '::' + m['n'], 'non-const public method',
                              'public method can mutate an existing object', file=c['file'], line=m['line'],
                              cfg=cfgname)
    for cls, allowed_mut in tab['mutable_members'].items():
        c = db.classes.get(cls)
        if not c:
            raise AnalysisBroken('C05.2: class %s not found' % cls)
        mut = sorted(f['n'] for f in c['fields'] if f.get('mutable'))
        ok = set(mut) <= set(allowed_mut)
        chk.obligation(ok, {'class': cls, 'mutable members': mut, 'allowed': allowed_mut})
        chk.count('c05.2.mutable_members', len(mut))
        if not ok:
            extra = sorted(set(mut) - set(allowed_mut))
            chk.violation('C05.2', cls, 'mutable %s' % ','.join(extra),
                          'new mutable member: const methods could change observable state', file=c['file'],
                          line=c['line'], cfg=cfgname)
    # const methods must not write non-mutable fields: enforced by the compiler; shared buffers are rule 1


def assign_lhs_ids(fn):
    """ids of mem events that are only the target of a plain assignment"""
    ids = set()
    for b in fn['blocks']:
        for ev in b['ev']:
            tgt = None
            if ev.get('k') == 'bin' and ev.get('op') == '=':
                tgt = ev['l']
            elif ev.get('k') == 'call' and ev.get('op') == '=' and ev.get('recv') is not None:
                tgt = ev['recv']
            if tgt is not None:
                t = T.strip(tgt)
                if t.get('k') == 'mem' and 'i' in t:
                    ids.add(t['i'])
    return ids


def rule3(chk, db, cfgname):
    chk.rule('C05.3', 'a lazily rewritten mutable field is read only after the forcing call on the same object, '
             'or together with every other field of its lazy group (representation copy), or on an object created '
             'in the same function; Manifold::pNode_ only inside its accessor set')
    tab = load_table()
    for grp in tab['lazy_groups']:
        cls, fields, force = grp['class'], set(grp['fields']), grp['forcing']
        exempt = set(grp.get('exempt_functions', []))
        reviewed = {r['function']: r['reason'] for r in grp.get('reviewed_readers', [])}
        nreads = 0
        # methods of the class that always force (call the forcing function on this on every path)
        forcers = {force}
        changed = True
        while changed:
            changed = False
            for f in db.functions.values():
                if f.get('cls') != cls or not f.get('blocks') or T.short(f['name']) in forcers:
                    continue
                g0 = C.Cfg(f)

                def tr0(block, st):
                    for ev in block['ev']:
                        if ev.get('k') == 'call' and T.short(ev.get('fn', '')) in forcers and \
                                ev.get('mcls') == cls and ev.get('recv') is not None and \
                                norm(T.pstr(ev['recv'])) == 'this':
                            return True
                    return st
                IN0, _ = C.forward(g0, False, tr0, lambda a, b: a and b)
                if IN0.get(g0.exit, False):
                    forcers.add(T.short(f['name']))
                    changed = True
        chk.count('c05.3.forcing_methods', len(forcers))
        family_objs = {}
        for f in db.functions.values():
            if not f.get('blocks'):
                continue
            root = f['key'].split('::<lambda@')[0]
            for b in f['blocks']:
                for ev in b['ev']:
                    if ev.get('k') == 'mem' and ev.get('cls') == cls and ev['n'] in fields:
                        family_objs.setdefault(root, {}).setdefault(norm(T.pstr(ev['base'])), set()).add(ev['n'])
        for f in db.functions.values():
            if not f.get('blocks'):
                continue
            bn = T.basename(f['name'])
            reads = []
            lhs = assign_lhs_ids(f)
            for b in f['blocks']:
                for ev in b['ev']:
                    if ev.get('k') == 'mem' and ev.get('cls') == cls and ev['n'] in fields and ev.get('i') not in lhs:
                        reads.append((b['id'], ev))
            if not reads:
                continue
            if bn in exempt or f.get('kind') in ('ctor', 'dtor') and f.get('cls') == cls:
                chk.count('c05.3.exempt_reads', len(reads))
                continue
            g = C.Cfg(f)
            # objects whose whole lazy group is read in this function -> representation copy
            per_obj = family_objs.get(f['key'].split('::<lambda@')[0], {})
            # also count group members of lambdas' parent (lambda bodies see the same objects)
            locals_fresh = set()
            for _, ev in g.events():
                if ev.get('k') == 'decl':
                    for v in ev['vars']:
                        t = db.T(f, v['t'])
                        if t.get('r') == cls and not t.get('ref') and not t.get('ptr'):
                            init = v.get('init')
                            n = T.strip(init) if init else None
                            if n is None or not (n.get('k') == 'ctor' and n.get('copy')):
                                locals_fresh.add(v['n'])

            def tr(block, st):
                st = set(st)
                for ev in block['ev']:
                    if ev.get('k') == 'call' and T.short(ev.get('fn', '')) in forcers and ev.get('mcls') == cls \
                            and ev.get('recv') is not None:
                        st.add(norm(T.pstr(ev['recv'])))
                return frozenset(st)
            IN, _ = C.forward(g, frozenset(), tr, lambda a, b: a & b)
            # events inside a block: recompute incrementally
            for bid, ev in reads:
                nreads += 1
                obj = norm(T.pstr(ev['base']))
                st = set(IN.get(bid, frozenset()))
                for e2 in g.blocks[bid]['ev']:
                    if e2 is ev:
                        break
                    if e2.get('k') == 'call' and T.short(e2.get('fn', '')) in forcers and e2.get('mcls') == cls \
                            and e2.get('recv') is not None:
                        st.add(norm(T.pstr(e2['recv'])))
                why = None
                if obj in st:
                    why = 'after %s() on %s' % (force, obj)
                elif per_obj.get(obj, set()) >= fields:
                    why = 'representation copy (reads %s together)' % ','.join(sorted(fields))
                elif obj.split('.')[0].split('[')[0] in locals_fresh:
                    why = 'object created in this function'
                elif bn in reviewed:
                    why = 'reviewed: ' + reviewed[bn]
                    chk.count('c05.3.reviewed_reads')
                chk.obligation(why is not None, {'function': f['name'], 'line': ev.get('ln'),
                                                 'read': obj + '.' + ev['n'], 'justified': why or 'UNFORCED'})
                if why is None:
                    chk.violation('C05.3', f, '%s.%s unforced' % (obj, ev['n']),
                                  'lazily rewritten field %s::%s is read before %s() materialises the pending '
                                  'state: the value observed changes once any other const query forces it'
                                  % (cls, ev['n'], force), line=ev.get('ln'), cfg=cfgname)
        chk.count('c05.3.reads', nreads)
    # Manifold::pNode_ accessor set
    acc = set(tab['pnode_accessors'])
    n = 0
    for f in db.functions.values():
        for b in f.get('blocks', []):
            for ev in b['ev']:
                if ev.get('k') == 'mem' and ev.get('cls') == 'manifold::Manifold' and ev['n'] == 'pNode_':
                    n += 1
                    ok = T.basename(f['name']) in acc
                    chk.obligation(ok, {'function': f['name'], 'line': ev.get('ln'), 'access': 'pNode_',
                                        'in accessor set': ok})
                    if not ok:
                        chk.violation('C05.3', f, 'pNode_ access', 'Manifold::pNode_ touched outside its '
                                      'accessor set (LoadPNode/GetCsgLeafNode/ctors/assignment)',
                                      line=ev.get('ln'), cfg=cfgname)
    chk.count('c05.3.pnode_accesses', n)


def main(chk, tier):
    import db as D
    configs = ['seq', 'par'] if tier == 'quick' else ['seq', 'par', 'seq-debug', 'par-debug']
    for cfgname in configs:
        db = D.load(cfgname)
        chk.configs.append(cfgname)
        chk.units = len(db.units)
        chk.functions_analysed += len(db.functions)
        rule1(chk, db, cfgname)
        rule2(chk, db, cfgname)
        rule3(chk, db, cfgname)
    n = len(configs)
    chk.floor('c05.1.mutation_sites', 120 * n)
    chk.floor('c05.1.make_unique', 5 * n)
    chk.floor('c05.1.requires_summaries', 25 * n)
    return chk.finish(
        'Copy-on-write typestate over every function that touches a Halfedges/Impl object: a must-dataflow of the '
        'set of halfedge storages known Unique, with interprocedural RequiresUnique/EnsuresUnique summaries '
        'through this, reference parameters, lambda captures and functor reference fields, under the documented '
        'contract that copy construction and copy assignment share the buffer. Plus constness of the shared '
        'payload types, absence of const-removing casts, constness of the public API and forcing-before-read of '
        'lazily rewritten mutable fields. Decides that no operation on a derived object can write into storage an '
        'existing Manifold/CrossSection still uses; does not decide that lazily substituted values equal the '
        'deferred expression.',
        assumptions=['Halfedges\' own methods are the only code touching start_/paired_/propVert_ (checked)',
                     'aliasing is resolved one level (reference locals, lambda captures, functor reference fields)',
                     'copy construction is treated as sharing (the documented SharedVec contract), which is '
                     'stronger than today\'s deep-copying copy constructor'])
